#!/bin/bash
# tools/seeded_all.sh [tier] [jobs]  - run every seeded change under
# /verif/seeded against the check named in its meta.json ("detected_by"
# prefix) and report.  Runs JOBS scratch builds in parallel (default 4), each
# with its own target directory under /tmp (removed at the end).
VERIF="$(cd "$(dirname "${BASH_SOURCE[0]}")/.." && pwd)"
TIER="${1:-quick}"; JOBS="${2:-4}"
OUT="$(mktemp -d /tmp/pkgsim-seeded-all.XXXXXX)"
trap 'rm -rf "$OUT" /tmp/pkgsim-mut-target-sa-*' EXIT
one() {
  d="$1"; slot="$2"; id="$(basename "$d")"
  prop="$(python3 -c "import json,sys;m=json.load(open('$d/meta.json'));print('SKIP' if m['detected_by'].startswith('NOT') else m['detected_by'].split(':')[0])")"
  if [ "$prop" = SKIP ]; then echo "SCOPED-OUT $id (see meta.json: why_not)"; return; fi
  out="$(MUT_TARGET="/tmp/pkgsim-mut-target-sa-$slot" "$VERIF/tools/mutant.sh" "$d/patch.diff" "$prop" --tier "$TIER" 2>&1)"; rc=$?
  sigs="$(echo "$out" | grep '^violation:' | sed -E 's/.*signature=([^ ]+).*/\1/' | cut -c1-60 | sort -u | tr '\n' ',')"
  if [ $rc -eq 1 ]; then echo "CAUGHT  $id by $prop: $sigs"; else echo "MISSED  $id by $prop (rc=$rc)"; fi
}
export -f one; export VERIF TIER
i=0
for d in "$VERIF"/seeded/*/; do
  slot=$((i % JOBS)); i=$((i+1))
  echo "${d%/}" >> "$OUT/list.$slot"
done
for slot in $(seq 0 $((JOBS-1))); do
  [ -f "$OUT/list.$slot" ] || continue
  ( while read -r d; do one "$d" "$slot"; done < "$OUT/list.$slot" > "$OUT/res.$slot" 2>&1 ) &
done
wait
cat "$OUT"/res.* | sort -k2 -V
n=$(cat "$OUT"/res.* | grep -c -E '^(CAUGHT|MISSED)'); miss=$(cat "$OUT"/res.* | grep -c '^MISSED'); scoped=$(cat "$OUT"/res.* | grep -c '^SCOPED-OUT')
echo "seeded changes run: $n, missed: $miss, scoped out: $scoped"
[ "$miss" -eq 0 ]
