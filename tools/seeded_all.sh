#!/bin/bash
# tools/seeded_all.sh [tier]  - run every seeded change under /verif/seeded
# against the check named in its meta.json ("detected_by" prefix) and report.
VERIF="$(cd "$(dirname "${BASH_SOURCE[0]}")/.." && pwd)"
TIER="${1:-quick}"; miss=0; n=0
for d in "$VERIF"/seeded/*/; do
  id="$(basename "$d")"
  prop="$(python3 -c "import json,sys;m=json.load(open('$d/meta.json'));print('SKIP' if m['detected_by'].startswith('NOT') else m['detected_by'].split(':')[0])")"; if [ "$prop" = SKIP ]; then echo "SCOPED-OUT $id (see meta.json: why_not)"; continue; fi
  out="$(MUT_TARGET="${MUT_TARGET:-/tmp/pkgsim-mut-target}" "$VERIF/tools/mutant.sh" "$d/patch.diff" "$prop" --tier "$TIER" 2>&1)"; rc=$?
  sigs="$(echo "$out" | grep '^violation:' | sed -E 's/.*signature=([^ ]+).*/\1/' | cut -c1-60 | sort -u | tr '\n' ',')"
  n=$((n+1))
  if [ $rc -eq 1 ]; then echo "CAUGHT  $id by $prop: $sigs"; else echo "MISSED  $id by $prop (rc=$rc)"; miss=$((miss+1)); fi
done
echo "seeded changes: $n, missed: $miss"
[ $miss -eq 0 ]
