// tools/collide.rs - finds, for a handful of widely used 32-bit string hashes, 7-character
// keys (A-Z and '_') whose hash equals that of one of the 15 known pbulk-index keys.
// Output: Rust table rows ("HASHNAME", "KNOWN", "COLLIDING").  rustc -O collide.rs && ./collide
use std::thread;
const KNOWN: [&str; 15] = [
    "PKGNAME", "ALL_DEPENDS", "PKG_SKIP_REASON", "PKG_FAIL_REASON", "NO_BIN_ON_FTP", "RESTRICTED", "CATEGORIES",
    "MAINTAINER", "USE_DESTDIR", "BOOTSTRAP_PKG", "USERGROUP_PHASE", "SCAN_DEPENDS", "PBULK_WEIGHT", "MULTI_VERSION", "PKG_LOCATION",
];
fn fnv1a(s: &[u8]) -> u32 { let mut h = 0x811c9dc5u32; for &c in s { h ^= c as u32; h = h.wrapping_mul(0x01000193); } h }
fn fnv1(s: &[u8]) -> u32 { let mut h = 0x811c9dc5u32; for &c in s { h = h.wrapping_mul(0x01000193); h ^= c as u32; } h }
fn djb2(s: &[u8]) -> u32 { let mut h = 5381u32; for &c in s { h = h.wrapping_mul(33).wrapping_add(c as u32); } h }
fn djb2a(s: &[u8]) -> u32 { let mut h = 5381u32; for &c in s { h = h.wrapping_mul(33) ^ (c as u32); } h }
fn sdbm(s: &[u8]) -> u32 { let mut h = 0u32; for &c in s { h = (c as u32).wrapping_add(h << 6).wrapping_add(h << 16).wrapping_sub(h); } h }
fn java31(s: &[u8]) -> u32 { let mut h = 0u32; for &c in s { h = h.wrapping_mul(31).wrapping_add(c as u32); } h }
fn oaat(s: &[u8]) -> u32 { let mut h = 0u32; for &c in s { h = h.wrapping_add(c as u32); h = h.wrapping_add(h << 10); h ^= h >> 6; } h = h.wrapping_add(h << 3); h ^= h >> 11; h.wrapping_add(h << 15) }
fn crc32(s: &[u8]) -> u32 { let mut c = !0u32; for &b in s { c ^= b as u32; for _ in 0..8 { c = if c & 1 != 0 { (c >> 1) ^ 0xedb88320 } else { c >> 1 }; } } !c }
fn murmur3(s: &[u8]) -> u32 {
    let (c1, c2) = (0xcc9e2d51u32, 0x1b873593u32); let mut h = 0u32; let n = s.len() / 4;
    for i in 0..n { let mut k = u32::from_le_bytes([s[4*i], s[4*i+1], s[4*i+2], s[4*i+3]]); k = k.wrapping_mul(c1); k = k.rotate_left(15); k = k.wrapping_mul(c2); h ^= k; h = h.rotate_left(13); h = h.wrapping_mul(5).wrapping_add(0xe6546b64); }
    let t = &s[4*n..]; let mut k = 0u32;
    if t.len() >= 3 { k ^= (t[2] as u32) << 16; } if t.len() >= 2 { k ^= (t[1] as u32) << 8; }
    if t.len() >= 1 { k ^= t[0] as u32; k = k.wrapping_mul(c1); k = k.rotate_left(15); k = k.wrapping_mul(c2); h ^= k; }
    h ^= s.len() as u32; h ^= h >> 16; h = h.wrapping_mul(0x85ebca6b); h ^= h >> 13; h = h.wrapping_mul(0xc2b2ae35); h ^ (h >> 16)
}
const ALPHA: &[u8; 27] = b"ABCDEFGHIJKLMNOPQRSTUVWXYZ_";
fn main() {
    let hashes: Vec<(&str, fn(&[u8]) -> u32)> = vec![("fnv1a", fnv1a), ("fnv1", fnv1), ("djb2", djb2), ("djb2a", djb2a), ("sdbm", sdbm), ("java31", java31), ("oaat", oaat), ("crc32", crc32), ("murmur3", murmur3)];
    for (name, f) in hashes {
        let mut targets: Vec<(u32, usize)> = KNOWN.iter().enumerate().map(|(i, k)| (f(k.as_bytes()), i)).collect();
        targets.sort();
        let tv: Vec<u32> = targets.iter().map(|t| t.0).collect();
        let total: u64 = 27u64.pow(7);
        let nthreads = 16u64;
        let mut handles = Vec::new();
        for t in 0..nthreads {
            let tv = tv.clone();
            handles.push(thread::spawn(move || {
                let mut found: Vec<(u32, [u8; 7])> = Vec::new();
                let lo = total * t / nthreads; let hi = total * (t + 1) / nthreads;
                // bloom-ish filter on the low 12 bits
                let mut filt = [false; 4096]; for &x in &tv { filt[(x & 4095) as usize] = true; }
                let mut s = [0u8; 7];
                let mut idx = [0usize; 7]; let mut r = lo; for p in (0..7).rev() { idx[p] = (r % 27) as usize; r /= 27; }
                for p in 0..7 { s[p] = ALPHA[idx[p]]; }
                let mut n = lo;
                while n < hi {
                    let h = f(&s);
                    if filt[(h & 4095) as usize] && tv.binary_search(&h).is_ok() { found.push((h, s)); }
                    // increment
                    let mut p = 6; loop { idx[p] += 1; if idx[p] < 27 { s[p] = ALPHA[idx[p]]; break; } idx[p] = 0; s[p] = ALPHA[0]; if p == 0 { break; } p -= 1; }
                    n += 1;
                }
                found
            }));
        }
        let mut per_target: Vec<Option<String>> = vec![None; 15];
        for h in handles { for (hv, s) in h.join().unwrap() {
            let st = String::from_utf8(s.to_vec()).unwrap();
            if KNOWN.contains(&st.as_str()) { continue; }
            for (tvv, ti) in &targets { if *tvv == hv && per_target[*ti].is_none() { per_target[*ti] = Some(st.clone()); } }
        } }
        for (i, c) in per_target.iter().enumerate() { if let Some(c) = c { println!("    (\"{}\", \"{}\", \"{}\"),", name, KNOWN[i], c); } }
    }
}
