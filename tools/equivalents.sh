#!/bin/bash
# tools/equivalents.sh - property-preserving rewrites must stay quiet.
# For every seeded-equivalent/<name>/patch.diff: the crate's own suite must
# pass with it, and the related checks (the property in the name, plus C17)
# must exit 0 against the rewritten copy.
VERIF="$(cd "$(dirname "${BASH_SOURCE[0]}")/.." && pwd)"
export CARGO_NET_OFFLINE=true
bad=0
for d in "$VERIF"/seeded-equivalent/*/; do
  name="$(basename "$d")"; prop="$(echo "$name" | sed -E 's/^R-(C[0-9]+)-.*/\1/')"
  SCR="$(mktemp -d /tmp/pkgsim-eq.XXXXXX)"
  rsync -a --exclude target --exclude .git /repo/ "$SCR/repo/"
  (cd "$SCR/repo" && patch -p1 --quiet < "$d/patch.diff") || { echo "ALARM $name: patch does not apply"; bad=1; rm -rf "$SCR"; continue; }
  if (cd "$SCR/repo" && CARGO_TARGET_DIR="${SEED_TARGET:-/tmp/pkgsim-seed-target}" cargo test --workspace --no-fail-fast --offline >"$SCR/suite.log" 2>&1); then suite=pass; else suite=FAIL; bad=1; fi
  rm -rf "$SCR"
  line="$name suite=$suite"
  extra=""; [ "$prop" = C07 ] && extra="C09"; for P in $prop C17 $extra ${EXTRA_PROPS:-}; do
    out="$(MUT_TARGET="${MUT_TARGET:-/tmp/pkgsim-mut-target}" "$VERIF/tools/mutant.sh" "$d/patch.diff" "$P" 2>&1)"; rc=$?
    line="$line $P=rc$rc"
    if [ $rc -ne 0 ]; then bad=1; echo "$out" | grep -E "^violation|harness|error" | cut -c1-300 | head -3; fi
  done
  echo "$line"
done
[ $bad -eq 0 ] && echo "equivalent rewrites: all quiet" || echo "equivalent rewrites: ALARM"
exit $bad
