#!/bin/bash
# tools/equivalents.sh [jobs] [name-regex] - property-preserving rewrites must stay quiet.
# For every seeded-equivalent/<name>/patch.diff: the crate's own suite must
# pass with it, and the related checks (the property in the name, C17, and a
# few neighbours that share code) must exit 0 against the rewritten copy.
# Runs JOBS scratch builds in parallel (default 4).
VERIF="$(cd "$(dirname "${BASH_SOURCE[0]}")/.." && pwd)"
JOBS="${1:-4}"; FILTER="${2:-.}"
export CARGO_NET_OFFLINE=true
OUT="$(mktemp -d /tmp/pkgsim-eq-all.XXXXXX)"
trap 'rm -rf "$OUT" /tmp/pkgsim-mut-target-eq-* /tmp/pkgsim-seed-target-eq-*' EXIT
one() {
  d="$1"; slot="$2"
  name="$(basename "$d")"; prop="$(echo "$name" | sed -E 's/^R-(C[0-9]+)-.*/\1/')"
  SCR="$(mktemp -d /tmp/pkgsim-eq.XXXXXX)"
  rsync -a --exclude target --exclude .git /repo/ "$SCR/repo/"
  (cd "$SCR/repo" && patch -p1 --quiet < "$d/patch.diff") || { echo "ALARM $name: patch does not apply"; rm -rf "$SCR"; return; }
  if (cd "$SCR/repo" && CARGO_TARGET_DIR="/tmp/pkgsim-seed-target-eq-$slot" cargo test --workspace --no-fail-fast --offline >"$SCR/suite.log" 2>&1); then suite=pass; else suite=FAIL; fi
  rm -rf "$SCR"
  line="$name suite=$suite"; bad=0; [ $suite = pass ] || bad=1
  extra=""
  case "$prop" in C07) extra="C09";; C13) extra="C12";; C06) extra="C16";; C17) extra="C06 C07 C09 C12 C13 C16 C20";; esac
  for P in $prop C17 $extra; do
    [ "$P" = C17 ] && [ "$prop" = C17 ] && [ -n "$seen17" ] && continue; [ "$P" = C17 ] && seen17=1
    out="$(MUT_TARGET="/tmp/pkgsim-mut-target-eq-$slot" "$VERIF/tools/mutant.sh" "$d/patch.diff" "$P" 2>&1)"; rc=$?
    line="$line $P=rc$rc"
    if [ $rc -ne 0 ]; then bad=1; echo "$out" | grep -E "^violation|harness|error" | cut -c1-300 | head -3; fi
  done
  seen17=""
  [ $bad -eq 0 ] && echo "QUIET  $line" || echo "ALARM  $line"
}
i=0
for d in "$VERIF"/seeded-equivalent/*/; do
  [ -f "$d/patch.diff" ] || continue
  basename "$d" | grep -qE "$FILTER" || continue
  slot=$((i % JOBS)); i=$((i+1))
  echo "${d%/}" >> "$OUT/list.$slot"
done
for slot in $(seq 0 $((JOBS-1))); do
  [ -f "$OUT/list.$slot" ] || continue
  ( while read -r d; do one "$d" "$slot"; done < "$OUT/list.$slot" > "$OUT/res.$slot" 2>&1 ) &
done
wait
cat "$OUT"/res.* | sort -k2
n=$(cat "$OUT"/res.* | grep -c -E '^(QUIET|ALARM)'); bad=$(cat "$OUT"/res.* | grep -c '^ALARM')
echo "equivalent rewrites: $n, alarms: $bad"
[ "$bad" -eq 0 ]
