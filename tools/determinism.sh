#!/bin/bash
# tools/determinism.sh [SEEDS] [RUNS]
#
# Proves that a seed is one exactly repeatable batch: for each claimed
# property and each of SEEDS seed values, the batch is executed in fresh
# processes with 1, 5 and 16 worker threads (and, for the disk-backed
# properties, on two different file systems: /dev/shm and the system temp
# directory) and the batch digests (order-independent fold of every run's
# event digest), evaluation counts and distinct-schedule counts are compared.
# Any difference is a harness bug.  Exit 0 = all identical.
SEEDS="${1:-40}"; RUNS="${2:-1500}"
VERIF="$(cd "$(dirname "${BASH_SOURCE[0]}")/.." && pwd)"
BIN="$VERIF/target/release/pkgsim"
"$VERIF/setup.sh" >/dev/null 2>&1 || { echo "build failed"; exit 2; }
TMPROOT="$(mktemp -d /tmp/pkgsim-det.XXXXXX)"; trap 'rm -rf "$TMPROOT"' EXIT
cp "$VERIF/known_findings.json" "$TMPROOT/"
fail=0; total=0
for P in C06 C07 C09 C12 C13 C16 C17 C20; do
  for S in $(seq 1 "$SEEDS"); do
    ref=""
    for cfg in "1:" "5:" "16:" "7:/tmp"; do
      W="${cfg%%:*}"; SCR="${cfg#*:}"
      case "$P:$SCR" in C12:/tmp|C17:/tmp|C20:/tmp) ;; *:/tmp) continue ;; esac
      out=$(PKGSIM_SCRATCH="$SCR" "$BIN" "$P" --seed "$S" --runs "$RUNS" --workers "$W" --no-evidence --root "$TMPROOT" 2>&1 | grep "done:")
      sig=$(echo "$out" | sed -E 's/.*evaluations=([0-9]+).*distinct_schedules=([0-9]+) steps=([0-9]+) faults_fired=([0-9]+).*batch_digest=([0-9a-f]+).*/\1 \2 \3 \4 \5/')
      total=$((total+1))
      if [ -z "$ref" ]; then ref="$sig"; elif [ "$ref" != "$sig" ]; then echo "NONDETERMINISM $P seed=$S workers=$W scratch=$SCR: '$sig' vs '$ref'"; fail=1; fi
    done
  done
  echo "$P: $SEEDS seeds x {1,5,16 workers$(case $P in C12|C17|C20) echo ', second file system';; esac)} identical=$([ $fail = 0 ] && echo yes || echo NO)"
done
echo "determinism: $total batches compared, failures=$fail"
exit $fail
