#!/usr/bin/env python3
"""Regenerate /verif/MANIFEST.json from the table below (single source of truth)."""
import json, os, subprocess, sys

ROOT = os.path.dirname(os.path.dirname(os.path.abspath(__file__)))

CLAIMED = {
    "C06": dict(
        category="exploration",
        design_ref="DESIGN.md 3.5",
        technique="deterministic simulation: seeded search over delivery orders, duplications and merge trees of best_match reductions across replicas",
        text="Seeded simulation of R replicas that reduce a candidate multiset with the real Pattern::best_match under scripted delivery order, duplicate/late deliveries and a scripted merge tree; per-step invariants (None iff neither matches, result is one of the arguments and matches, argument-order independence) an end-of-history convergence check against an independent max-under-order fold, and, for every pair in which both candidates match, an independent model of the dewey rule written from the property text (digit runs below 2^63 by value; '.', '_', pl = 0; alpha/beta/rc|pre = -3/-2/-1; other letters = 0 then alphabet rank; case-insensitive; ignored characters; nb<N> revision; zero padding) that fixes the winner, ties to the byte-wise smaller name; every matches() answer entering a merge step is compared with an independent matcher for the generated pattern shapes (dewey bounds with all four operators, one level of braces, globs, plain strings). Sampling, not enumeration: a clean batch is evidence that the reduction is order-, grouping- and duplication-independent on the schedules explored.",
        note="Claims the history clause of C06 (plus the per-pair clauses as invariants of the same runs). The end-of-history fold uses the version order the library itself exposes through single-bound patterns; the per-pair winner is checked against the independent dewey model, which declines on digit runs at or beyond i64::MAX, on an 'nb' not in lower case and on versions with pattern metacharacters. One known finding (a letter weighs its ASCII code instead of its alphabet rank; not repairable without editing the crate's own test) is listed in known_findings.json and printed as KNOWN-FINDING. C01's quantifier over all four operators and over matches() is not claimed.",
    ),
    "C07": dict(
        category="exploration",
        design_ref="DESIGN.md 3.4",
        technique="deterministic simulation: seeded call histories against a map reference model, with the HashMap hash seed owned by the simulator (verif-hooks)",
        text="Seeded histories of set_*/push_*/clone/print/reparse calls on a real Summary, checked operation by operation against a BTreeMap reference model through all 23 getters, with equivalent histories (permuted, overwritten, set-split-into-pushes, rehash detours) executed under different simulator-chosen hash seeds and required to print byte-identical text; complete final states are printed, parsed back and re-printed. Sampling over histories and hash seeds.",
        note="Requires the verif-hooks feature so that the per-instance HashMap hash keys are a replayable function of the scenario. Values never contain CR or LF (outside the property).",
    ),
    "C09": dict(
        category="fault_enumeration",
        design_ref="DESIGN.md 3.1",
        technique="deterministic simulation with fault injection: the simulator owns the partition of the byte stream into write calls and the upstream reader's short reads, EINTR, errors and EOF",
        text="Seeded pkg_summary streams generated from a reference model are delivered to a real SummaryStream through a scripted Write seam (direct chunked writes, or std::io::copy from a scripted reader): random, fixed-size, byte-at-a-time partitions and partitions biased into in-flight state (inside multi-byte characters, inside the blank-line separator, after '='), zero-length writes, streams of 150-320 entries (80-200 KiB) in one write or 64/100 KiB chunks; the consumer may clone the stream object mid-delivery, drain entries_mut() between writes or start from Default; for small streams every single cut position and every fixed chunk size 1..64 are swept, and for shortened streams every pair of cuts. Invariants after every write (Ok(len), entries is a growing prefix of the model) and end-of-history equality with the model, the single-write run and the original text; malformed entries at first/middle/last position must fail with InvalidData no later than the completing write with exactly the preceding entries collected.",
        note="Streams are canonical prints of model entries (values without CR/LF). After an injected upstream hard error or early EOF only the prefix invariant is required (the property is silent about truncated streams).",
    ),
    "C12": dict(
        category="fault_enumeration",
        design_ref="DESIGN.md 3.6",
        technique="deterministic simulation with storage-fault injection: bit flips, torn/extended/replaced/lost/swapped files and corrupted records between verification rounds, against an independent digest reference",
        text="Per run a scratch directory holds 1..5 generated distfiles and patch files with a distinfo recorded for them (written from the harness model or built through the API); a seeded sequence of storage faults (bit flip, byte set, truncate, extend, zero-fill, same-length replacement, delete, swap, corrupted recorded hash/size, dropped record line, and the benign $NetBSD-line rewrite / final-newline changes for patches) is applied between verification rounds, and after every round verify_size / verify_checksum / verify_checksums / find_entry (Distinfo-level and Entry-level, also on a clone, also against the same bytes stored under a name of the other kind) are compared, for every file (names may be non-UTF-8), all six algorithms and several lookup paths, with the verdict computed from the model bytes by independent one-shot digests and an independent $NetBSD filter. When the record is built through the API, lookups are interleaved with every insert. For small files every byte offset is bit-flipped in a sweep.",
        note="The kernel file system is real (the library opens paths itself and has no FS trait), so read-level EIO cannot be injected here; that part is covered through the reader seam in C13. Path fields inside errors are not compared. No algorithm is recorded twice for one file.",
    ),
    "C13": dict(
        category="fault_enumeration",
        design_ref="DESIGN.md 3.2",
        technique="deterministic simulation with fault injection on the io::Read seam: scripted read sizes, EINTR, hard errors and early EOF, against an independent digest reference",
        text="Every Read::read call made by hash_file / hash_patch is served by a scripted reader: full, 1-byte, random short, fixed-size and boundary-biased reads (ending inside/around each $NetBSD marker, newline and hash block boundary), EINTR anywhere (also consecutive, storms of hundreds, first call, and the call that would report EOF), one hard or persistent error of seven kinds, or early EOF; lines up to 70 KB; optionally an earlier call on the same thread. The result must equal the RustCrypto one-shot digest (pinned by published known-answer vectors) of the bytes - for patches of the independently filtered bytes - regardless of the schedule; a hard error must surface as Err of that kind, never a hash; the number of read calls is bounded. For inputs of at most 300 bytes every single split position and a fault at every call index are swept.",
        note="Equality with 'the standard algorithm' is equality with RustCrypto's one-shot implementation pinned by known-answer vectors for four inputs per algorithm. Name parsing is checked over ASCII case patterns only.",
    ),
    "C16": dict(
        category="fault_enumeration",
        design_ref="DESIGN.md 3.3",
        technique="deterministic simulation with fault injection on the io::BufRead seam: scripted fill_buf chunks, EINTR, hard errors and early EOF, against a record-list reference model",
        text="pbulk-index streams generated from a reference record model are read by the real ScanIndex::from_reader through a scripted BufRead (chunks ending anywhere, including inside multi-byte characters and right after 'PKGNAME=') or BufReader::with_capacity over a scripted reader; EINTR anywhere, one hard or persistent error at any call (swept over every call index for small inputs), early EOF; lines of 70-100 KB. Fault-free and EINTR/short-read-only runs must return exactly the model's records field by field; content faults (block without PKGNAME, bad dependency, bad location) and hard I/O errors must fail the whole read - never a partial or shifted list.",
        note="The generator stays inside the property's grammar (no blanks between key and '=', no CR, ASCII white space only at line/value edges). After an early EOF that cuts an ALL_DEPENDS / PKG_LOCATION value the oracle only requires the records before the cut record to be right, or Err.",
    ),
    "C17": dict(
        category="exploration",
        design_ref="DESIGN.md 3.8",
        technique="deterministic simulation with document-corruption and seam faults over the library's end-to-end pipelines, with panic and step-budget monitors",
        text="Scoped claim: valid pbulk-index, package-database, distinfo and pkg_summary documents are corrupted in storage or in flight (bit flip, span drop/duplication, splice, truncation, NUL, non-UTF-8, long lines, huge numbers) and pushed through five end-to-end pipelines (bulk scan -> dependency resolution; package database -> pkg_summary; distinfo -> verification; Summary call histories; pkg_summary stream -> dependency resolution) over the scripted reader/writer/file-system seams under hostile hash seeds. Any panic, any seam-call budget overrun, any run that does not finish within a generous wall-clock bound when re-executed alone in a child process, and any run that kills the process (found by bisecting the batch in child processes) is a violation.",
        note="Not input fuzzing of every entry point: only entry points reached by the four pipelines are covered, listed with call/Ok/Err counts in the evidence; unreached ones are listed as not covered. PkgDB::open's read_dir().expect() needs EACCES/EIO and is out of reach without an FS seam.",
    ),
    "C20": dict(
        category="exploration",
        design_ref="DESIGN.md 3.7",
        technique="deterministic simulation with crash-point injection on the package-database directory tree and an installer interleaved with the iterator",
        text="Per run a scratch package database is built from a seeded configuration: 0..8 package directories whose installs are crash-interrupted after j of their '+' files in a per-run write order, stray files, empty/missing/plain-file database paths; other files in package directories (among them near-miss names of the mandatory files: <name>.orig, <name>~, the name less its last letter, in lower case, with a leading dot); in twin runs a metadata file that is a link to a file announcing length 0 and delivering content (/proc/version); in a third of the runs a simulated installer adds or removes '+' files between next() calls; the iterator is polled again after it finished. The multiset of yielded packages must equal the model's complete directories (changed-during-iteration ones may go either way), with pkgbase/pkgversion split at the last '-', read_metadata returning the stored content, and the MetadataEntry<->filename table a bijection (enumerated completely).",
        note="The kernel file system is real; readdir order is the one nondeterminism the harness does not own, so every oracle touching it compares as a multiset. Checks run as root: permission faults cannot be produced. Names without '-' or non-UTF-8 names are only checked for 'no panic, others still listed once'.",
    ),
}

NOT_APPLICABLE = {
    "C01": "pure function of two version strings compared with an external specification; no schedule, clock, fault or history for a simulator to own (needs a reference model with input search or proof - another technique family)",
    "C02": "pure function of (pattern text, package-name text); nothing to schedule or fault",
    "C03": "algebraic laws over the same pure comparison; nothing stateful or scheduled (C06's convergence runs would notice a gross transitivity failure only as a side effect)",
    "C04": "pure function of (pattern, name); no seam",
    "C05": "pure function of (pattern, name); no seam",
    "C08": "pure function of the entry text; its 'injected faults' are edits of the input string, not faults of a system (the stream path that calls it is C09)",
    "C10": "pure bytes -> structure -> bytes round trip; no reader, writer, file, clock or history dependence",
    "C11": "pure bytes -> structure classification; no seam",
    "C14": "pure bytes -> entries; no seam",
    "C15": "pure functions of an immutable parsed list; the 'ignore next file' flag is local to one call",
    "C18": "pure function of one string; no seam",
    "C19": "pure function of one string; no seam",
}


def main():
    built = sys.argv[1:] if len(sys.argv) > 1 else sorted(CLAIMED)
    checks = []
    for pid in sorted(CLAIMED):
        if pid not in built:
            continue
        c = CLAIMED[pid]
        checks.append({
            "property_id": pid,
            "quick_cmd": f"./check {pid} --tier quick",
            "thorough_cmd": f"./check {pid} --tier thorough",
            "evidence_file": f"evidence/{pid}.json",
            "replay_cmd_template": f"./check {pid} --replay {{path}}",
            "engine": "pkgsim",
            "level_claimed": {
                "category": c["category"],
                "text": c["text"] + " Independent objects of the same kind are also used in turn or nested (twin objects fed alternately, clones kept alive, a nested library call made from inside a reader or formatter seam at a scripted call), each judged against its own model; a small share of the runs are scale runs (more than 256 / 4096 / 65536 items, more than 64 KiB / 1 MiB of data, some on a thread of their own) and history runs (a neighbour's failed call, a sink or reader that fails part-way, files and directories that change under a held handle); in one run in eight (C06 C07 C09 C12 C17 C20) a second caller thread exists and a mask in the scenario decides which of the two threads makes each library call, strictly alternating, so objects are created on one thread and used on the other. In every run the allocator seam meters the bytes each library call allocates against the bytes it was given (deterministic work budget, violation work-budget-exceeded), next to the panic monitor, the seam-call budgets and the wall-clock hang watchdog.",
                "design_ref": c["design_ref"],
            },
            "level_note": c["note"],
            "technique": c["technique"],
        })
    na = [{"property_id": k, "reason": v} for k, v in sorted(NOT_APPLICABLE.items())]
    for pid in sorted(CLAIMED):
        if pid not in built:
            na.append({"property_id": pid, "reason": "check planned (DESIGN.md section 3) but not built yet at this commit; will be claimed when its check exists"})
    na.sort(key=lambda x: x["property_id"])
    try:
        commits = subprocess.check_output(
            ["git", "-C", "/repo", "log", "--format=%H %s"], text=True).splitlines()
        hook_commits = [l.split()[0] for l in commits if l.split(" ", 1)[1].startswith("verif hook")]
    except Exception:
        hook_commits = []
    manifest = {
        "version": 1,
        "setup_cmd": "./setup.sh",
        "hooks": {
            "guard": "cargo feature verif-hooks",
            "enable": "the simulator crate depends on pkgsrc = { path = \"/repo\", features = [\"verif-hooks\"] } and is rebuilt from /repo's working tree by every ./check invocation",
            "baseline_off_cmd": "cd /repo && cargo test --workspace --no-fail-fast --offline",
            "source_commits": hook_commits,
            "add_only": True,
        },
        "engines": [{
            "name": "pkgsim",
            "path": "sim/",
            "serves_properties": [c["property_id"] for c in checks],
            "kind_free_text": "single-process deterministic simulator: one PRNG (VERIF_SEED) generates an explicit scenario (workload + schedule + fault list), execution is a pure function of the scenario over scripted Read/BufRead/Write seams, a scratch directory tree, a seedable hash seam, a metering allocator (per-call work budget) and a second caller thread under strict alternation (a mask in the scenario says which thread makes which call); violations are minimised and written as replay files",
        }],
        "checks": checks,
        "not_applicable": na,
        "notes": "Exit codes: 0 held, 1 violation (VIOLATION line with replay file), 2 build/harness error. VERIF_SEED (default 1) and VERIF_TIER are honoured. Genuine defects repaired in /repo are listed as 'fixed' in known_findings.json; see DESIGN.md.",
    }
    with open(os.path.join(ROOT, "MANIFEST.json"), "w") as f:
        json.dump(manifest, f, indent=1)
        f.write("\n")


if __name__ == "__main__":
    main()
