#!/usr/bin/env python3
"""tools/mutagen.py OUT.jsonl [N_MUTANTS] [WORKERS] [SEED]

Systematic sensitivity measurement (never used by registered checks):
generates small syntactic mutants of the library's non-test code, keeps those
that still compile AND pass the crate's own baseline tests (lib + integration
tests, i.e. the mutants the existing suite cannot see), and runs the checks
that cover the mutated file against each.  One JSON line per mutant:
  {id, file, line, op, before, after, suite: pass|fail|nobuild,
   checks: {C09: rc, ...}, killed_by: [...]}
Scratch copies and build output live under /tmp and are removed at the end.
"""
import json, os, random, re, shutil, subprocess, sys, tempfile, threading

VERIF = os.path.dirname(os.path.dirname(os.path.abspath(__file__)))
REPO = "/repo"  # replaced in main() by a private snapshot, so that commits to /repo during a long run cannot shift line numbers

FILES = {
    "src/summary.rs": ["C07", "C09", "C17"],
    "src/digest.rs": ["C13", "C12", "C17"],
    "src/scanindex.rs": ["C16", "C17"],
    "src/distinfo.rs": ["C12", "C17"],
    "src/pkgdb.rs": ["C20", "C17"],
    "src/metadata.rs": ["C20", "C17"],
    "src/pattern.rs": ["C06", "C17"],
    "src/dewey.rs": ["C06", "C17"],
    "src/pkgname.rs": ["C06", "C16", "C17"],
    "src/pkgpath.rs": ["C16", "C17"],
    "src/depend.rs": ["C16", "C17"],
    "src/plist.rs": ["C17"],
}

OPS = [
    (r"==", "!="), (r"!=", "=="), (r"<=", "<"), (r">=", ">"),
    (r" < ", " <= "), (r" > ", " >= "),
    (r"&&", "||"), (r"\|\|", "&&"),
    (r"\+ 1\b", "+ 2"), (r"- 1\b", "- 0"), (r"\+ 2\b", "+ 1"),
    (r"\btrue\b", "false"), (r"\bfalse\b", "true"),
    (r"\.is_none\(\)", ".is_some()"), (r"\.is_some\(\)", ".is_none()"),
    (r"\.is_empty\(\)", ".len() == 1"),
    (r"\.is_ok\(\)", ".is_err()"),
    (r"\bcontinue;", "{}"),
    (r"\.rev\(\)", ""),
    (r"\brfind\(", "find("), (r"\brsplit_once\(", "split_once("),
    (r"\.trim\(\)", ""),
    (r"\bsplitn\(2, ", "splitn(3, "),
    (r"\.starts_with\(", ".ends_with("), (r"\.ends_with\(", ".starts_with("),
    (r"\.contains\(", ".starts_with("),
    (r"\b0\b", "1"), (r"\b2\b", "3"), (r"\b7\b", "6"),
]


def code_lines(path):
    """Yield (lineno, text) for lines that are code, outside tests and comments."""
    out = []
    in_block = False
    in_tests = False
    for i, l in enumerate(open(path).read().split("\n")):
        s = l.strip()
        if s.startswith("#[cfg(test)]") or re.match(r"mod tests\b", s):
            in_tests = True
        if in_tests:
            continue
        if in_block:
            if "*/" in s:
                in_block = False
            continue
        if s.startswith("/*"):
            if "*/" not in s:
                in_block = True
            continue
        if s.startswith("//") or s.startswith("*") or s.startswith("#[") or not s:
            continue
        if s.startswith("use ") or s.startswith("pub use ") or s.startswith("verif") or "verif_hooks" in s:
            continue
        out.append((i, l))
    return out


def candidates(rng):
    c = []
    for f in FILES:
        for (i, l) in code_lines(os.path.join(REPO, f)):
            code = l.split("//")[0]
            for (pat, rep) in OPS:
                for m in re.finditer(pat, code):
                    # do not touch string literals' interior for operator patterns
                    before = code[:m.start()]
                    if before.count('"') % 2 == 1:
                        continue
                    new = l[:m.start()] + rep + l[m.end():]
                    if new != l:
                        c.append((f, i, pat, l, new))
            # statement deletion
            s = l.strip()
            if re.match(r"^[a-z_\.]+[a-z_]+\(.*\);$", s) and not s.startswith("return") and not s.startswith("let "):
                c.append((f, i, "delete-statement", l, l[: len(l) - len(l.lstrip())] + "();"))
    rng.shuffle(c)
    return c


def run(cmd, cwd=None, env=None, timeout=1800):
    try:
        p = subprocess.run(cmd, cwd=cwd, env=env, stdout=subprocess.PIPE, stderr=subprocess.STDOUT, timeout=timeout, text=True)
        return p.returncode, p.stdout
    except subprocess.TimeoutExpired:
        return 124, "timeout"


def worker(wid, queue, lock, outf):
    scr = tempfile.mkdtemp(prefix="pkgsim-mg%d." % wid, dir="/tmp")
    repo = os.path.join(scr, "repo")
    env = dict(os.environ, CARGO_NET_OFFLINE="true", CARGO_TARGET_DIR=os.path.join(scr, "lib-target"))
    try:
        while True:
            with lock:
                if not queue:
                    break
                mid, (f, i, op, before, after) = queue.pop()
            run(["rsync", "-a", "--delete", "--exclude", "target", "--exclude", ".git", REPO + "/", repo + "/"])
            p = os.path.join(repo, f)
            lines = open(p).read().split("\n")
            lines[i] = after
            open(p, "w").write("\n".join(lines))
            rec = {"id": mid, "file": f, "line": i + 1, "op": op, "before": before.strip(), "after": after.strip()}
            rc, out = run(["cargo", "build", "--offline", "--features", "verif-hooks"], cwd=repo, env=env)
            if rc != 0:
                rec["suite"] = "nobuild"
            else:
                rc, out = run(["cargo", "test", "--offline", "--lib", "--tests"], cwd=repo, env=env, timeout=600)
                rec["suite"] = "pass" if rc == 0 else "fail"
            if rec["suite"] == "pass":
                # write the mutant as a patch and hand it to tools/mutant.sh
                patch = os.path.join(scr, "m.diff")
                d = subprocess.run(["diff", "-u", os.path.join(REPO, f), p], stdout=subprocess.PIPE, text=True).stdout
                d = d.replace("--- " + os.path.join(REPO, f), "--- a/" + f, 1).replace("+++ " + p, "+++ b/" + f, 1)
                open(patch, "w").write(d)
                rec["checks"] = {}
                rec["signatures"] = {}
                menv = dict(os.environ, MUT_TARGET=os.path.join(scr, "sim-target"), MUT_REPO=REPO)
                for prop in FILES[f]:
                    rc, out = run([os.path.join(VERIF, "tools/mutant.sh"), patch, prop], env=menv, timeout=1500)
                    rec["checks"][prop] = rc
                    sigs = sorted(set(re.findall(r"^violation: .*?signature=(\S+)", out, re.M)))
                    if sigs:
                        rec["signatures"][prop] = [s[:70] for s in sigs][:4]
                rec["killed_by"] = [k for k, v in rec["checks"].items() if v == 1]
                rec["harness_error"] = [k for k, v in rec["checks"].items() if v not in (0, 1)]
            with lock:
                outf.write(json.dumps(rec) + "\n")
                outf.flush()
    finally:
        shutil.rmtree(scr, ignore_errors=True)


def main():
    global REPO
    snap = tempfile.mkdtemp(prefix="pkgsim-mg-snap.", dir="/tmp")
    run(["rsync", "-a", "--exclude", "target", "--exclude", ".git", "/repo/", snap + "/repo/"])
    REPO = snap + "/repo"
    try:
        main2()
    finally:
        shutil.rmtree(snap, ignore_errors=True)


def main2():
    out = sys.argv[1]
    n = int(sys.argv[2]) if len(sys.argv) > 2 else 200
    workers = int(sys.argv[3]) if len(sys.argv) > 3 else 4
    seed = int(sys.argv[4]) if len(sys.argv) > 4 else 1
    rng = random.Random(seed)
    if os.environ.get("RECHECK"):
        # re-run the mutants of an earlier result file that no check killed
        # (matched by content: line numbers may have moved)
        cands = []
        for l in open(os.environ["RECHECK"]):
            r = json.loads(l)
            if r.get("suite") != "pass" or r.get("killed_by"):
                continue
            lines = open(os.path.join(REPO, r["file"])).read().split("\n")
            hits = [i for i, t in enumerate(lines) if t.strip() == r["before"]]
            if not hits:
                continue
            i = min(hits, key=lambda i: abs(i - (r["line"] - 1)))
            indent = lines[i][: len(lines[i]) - len(lines[i].lstrip())]
            cands.append((r["file"], i, r["op"], lines[i], indent + r["after"]))
    else:
        cands = candidates(rng)[:n]
    queue = list(enumerate(cands))
    queue.reverse()
    lock = threading.Lock()
    with open(out, "a") as outf:
        ts = [threading.Thread(target=worker, args=(w, queue, lock, outf)) for w in range(workers)]
        for t in ts:
            t.start()
        for t in ts:
            t.join()
    # summary
    recs = [json.loads(l) for l in open(out)]
    surv = [r for r in recs if r.get("suite") == "pass"]
    killed = [r for r in surv if r.get("killed_by")]
    print("mutants: %d; not built: %d; killed by the crate's suite: %d; invisible to the suite: %d; of those killed by the checks: %d" % (
        len(recs), sum(r["suite"] == "nobuild" for r in recs), sum(r["suite"] == "fail" for r in recs), len(surv), len(killed)))


if __name__ == "__main__":
    main()
