#!/bin/bash
# tools/quick_all.sh [tier] - every registered check on the current tree; prints one
# line per check and exits non-zero when any of them exits non-zero or reports a violation.
VERIF="$(cd "$(dirname "${BASH_SOURCE[0]}")/.." && pwd)"
TIER="${1:-quick}"; bad=0
for P in C06 C07 C09 C12 C13 C16 C17 C20; do
  out="$("$VERIF/check" $P --tier "$TIER" 2>&1)"; rc=$?
  line="$(echo "$out" | grep -E 'done:' | sed -E 's/.*(evaluations=[0-9]+).*(wall=[^ ]+).*(max_work_ratio=[^ ]+) (slowest_run_ms=[0-9]+).*/\1 \2 \3 \4/')"
  echo "$P rc=$rc $line"
  if [ $rc -ne 0 ] || echo "$out" | grep -q '^VIOLATION'; then bad=1; echo "$out" | grep -E '^violation|^VIOLATION|harness' | cut -c1-400; fi
done
[ $bad -eq 0 ] && echo "ALL CLEAN" || { echo "NOT CLEAN"; exit 1; }
