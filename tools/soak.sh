#!/bin/bash
# tools/soak.sh FROM TO [tier]  - run every claimed check for VERIF_SEED in
# FROM..TO on the current tree and report any run that does not exit 0
# (on the unchanged tree any alarm is a false alarm or a new finding).
VERIF="$(cd "$(dirname "${BASH_SOURCE[0]}")/.." && pwd)"
FROM="${1:-2}"; TO="${2:-20}"; TIER="${3:-quick}"
BIN="$VERIF/target/release/pkgsim"
"$VERIF/setup.sh" >/dev/null 2>&1 || { echo "build failed"; exit 2; }
bad=0; n=0
for S in $(seq "$FROM" "$TO"); do
  for P in C06 C07 C09 C12 C13 C16 C17 C20; do
    out="$(PKGSIM_ROOT="$VERIF" "$BIN" "$P" --seed "$S" --tier "$TIER" --no-evidence 2>&1)"; rc=$?
    n=$((n+1))
    if [ $rc -ne 0 ]; then bad=$((bad+1)); echo "ALARM $P seed=$S rc=$rc"; echo "$out" | grep -E "violation|VIOLATION|error|KNOWN" | cut -c1-400 | head -5; fi
  done
  echo "seed $S done ($n batches, $bad alarms)"
done
echo "soak: $n batches, alarms=$bad"
[ $bad -eq 0 ]
