#!/bin/bash
# Validate MANIFEST.json and every evidence file against the schemas.
python3-vt - <<'PY'
import json, jsonschema, glob, sys
m=json.load(open('/verif/MANIFEST.json')); jsonschema.validate(m,json.load(open('/root/.vp/MANIFEST.schema.json')))
es=json.load(open('/root/.vp/EVIDENCE.schema.json'))
for c in m['checks']:
    e=json.load(open('/verif/'+c['evidence_file'])); jsonschema.validate(e,es)
    assert e['property_id']==c['property_id'] and e['level']==c['level_claimed']['category'], c['property_id']
ids=[c['property_id'] for c in m['checks']]+[n['property_id'] for n in m.get('not_applicable',[])]
props=[json.loads(l)['id'] for l in open('/verif/properties.jsonl')]
assert sorted(ids)==sorted(props), (sorted(ids), props)
print("manifest+evidence valid:", [c['property_id'] for c in m['checks']])
PY
