#!/bin/bash
# tools/seed_eval.sh <seed-dir> <PROPERTY> [tier]
# Confirms a seeded change (patch.diff + demo.rs) in a scratch copy of /repo
# and runs the property's check against it.  Prints one summary line.
set -u
D="$(readlink -f "$1")"; P="$2"; TIER="${3:-quick}"
VERIF="$(cd "$(dirname "${BASH_SOURCE[0]}")/.." && pwd)"
SCR="$(mktemp -d /tmp/pkgsim-seed.XXXXXX)"; trap 'rm -rf "$SCR"' EXIT
export CARGO_NET_OFFLINE=true CARGO_TARGET_DIR="${SEED_TARGET:-/tmp/pkgsim-seed-target}"
rsync -a --exclude target --exclude .git /repo/ "$SCR/repo/"
# a shared target directory keeps the library built from the previous seed's patched copy;
# workspace members are fingerprinted by modification time, not by path, so make the clean
# sources newer than anything built before
find "$SCR/repo/src" "$SCR/repo/Cargo.toml" -type f -exec touch {} +
cd "$SCR/repo"
cp "$D/demo.rs" tests/demo.rs
clean_demo=FAIL; cargo test --offline --test demo >"$SCR/clean_demo.log" 2>&1 && clean_demo=pass
rm -f tests/demo.rs
applies=no; patch -p1 --quiet < "$D/patch.diff" >"$SCR/patch.log" 2>&1 && applies=yes
suite=FAIL; cargo test --workspace --no-fail-fast --offline >"$SCR/suite.log" 2>&1 && suite=pass
hooks=FAIL; cargo build --offline --features verif-hooks >"$SCR/hooks.log" 2>&1 && hooks=builds
cp "$D/demo.rs" tests/demo.rs
mut_demo=pass; cargo test --offline --test demo >"$SCR/mut_demo.log" 2>&1 || mut_demo=FAILS
rm -f tests/demo.rs
cd "$VERIF"
out="$(MUT_TARGET="${MUT_TARGET:-/tmp/pkgsim-mut-target}" MUT_KEEP_REPLAYS="$D/replays" tools/mutant.sh "$D/patch.diff" "$P" --tier "$TIER" 2>&1)"; rc=$?
sigs="$(echo "$out" | grep '^violation:' | sed -E 's/.*signature=([^ ]+).*/\1/' | sort -u | tr '\n' ',' )"
echo "$(basename "$D") prop=$P applies=$applies clean_demo=$clean_demo suite_with_change=$suite hooks=$hooks demo_with_change=$mut_demo check_rc=$rc signatures=$sigs"
echo "$out" | grep -E '^violation:|^VIOLATION|harness error' | cut -c1-400 | head -4
