#!/bin/bash
# tools/mutant.sh <patch.diff> <PROPERTY> [pkgsim args...]
#
# Sensitivity tooling (never used by registered checks): copies /repo's working
# tree to a scratch directory outside /repo and /verif, applies the patch,
# builds the same simulator sources against that copy and runs one check.
# Prints the check's output; exit status is the check's.  The scratch copy and
# its build output are removed afterwards (set KEEP=1 to keep them).
set -u
PATCH="$(readlink -f "$1")"; PROP="$2"; shift 2
VERIF="$(cd "$(dirname "${BASH_SOURCE[0]}")/.." && pwd)"
SCR="$(mktemp -d /tmp/pkgsim-mut.XXXXXX)"
cleanup() { [ "${KEEP:-0}" = 1 ] || rm -rf "$SCR"; }
trap cleanup EXIT
mkdir -p "$SCR/repo" "$SCR/crate" "$SCR/root"
rsync -a --exclude target --exclude .git "${MUT_REPO:-/repo}/" "$SCR/repo/"
if [ "$PATCH" != "/dev/null" ]; then
    if ! (cd "$SCR/repo" && patch -p1 --quiet < "$PATCH"); then
        echo "mutant.sh: patch does not apply" >&2; exit 3
    fi
fi
sed -e "s#path = \"/repo\"#path = \"$SCR/repo\"#" \
    -e "s#path = \"src/main.rs\"#path = \"$VERIF/sim/src/main.rs\"#" \
    "$VERIF/sim/Cargo.toml" > "$SCR/crate/Cargo.toml"
cp "$VERIF/sim/Cargo.lock" "$SCR/crate/Cargo.lock"
cp "$VERIF/known_findings.json" "$SCR/root/"
export PKGSIM_MANIFEST="$SCR/crate/Cargo.toml"
export PKGSIM_TARGET="${MUT_TARGET:-$SCR/target}"
"$VERIF/check" "$PROP" --root "$SCR/root" --no-evidence "$@"
rc=$?
if [ -n "${MUT_KEEP_REPLAYS:-}" ] && ls "$SCR/root/replays/"*.json >/dev/null 2>&1; then
    mkdir -p "$MUT_KEEP_REPLAYS" && cp "$SCR/root/replays/"*.json "$MUT_KEEP_REPLAYS/"
fi
exit $rc
