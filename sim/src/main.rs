//! pkgsim - deterministic simulation with fault injection for pkgsrc-rs.
//!
//! Usage: pkgsim <PROPERTY> [--tier quick|thorough] [--seed N] [--workers N]
//!               [--runs N] [--replay FILE] [--root DIR] [--no-sweep]
//!               [--no-evidence]
//!
//! Exit status: 0 the property held on everything explored (known findings
//! included), 1 at least one unlisted violation, 2 harness or usage error.

mod alloc_meter;
mod c06;
mod c07;
mod c09;
mod c12;
mod c13;
mod c16;
mod c17;
mod c20;
mod collisions;
mod disk;
mod framework;
mod model;
mod refdigest;
mod rng;
mod seams;

use framework::*;

#[global_allocator]
static GLOBAL: alloc_meter::Meter = alloc_meter::Meter;
use std::path::PathBuf;

fn usage() -> ! {
    eprintln!(
        "usage: pkgsim <C06|C07|C09|C12|C13|C16|C17|C20> [--tier quick|thorough] [--seed N] \
         [--workers N] [--runs N] [--replay FILE] [--root DIR] [--no-sweep] [--no-evidence]"
    );
    std::process::exit(2);
}

fn dispatch<P: Property>(p: &P, opts: &Opts, replay_file: Option<PathBuf>) -> i32 {
    if let Ok(f) = std::env::var("PKGSIM_INTERNAL_EXEC") {
        return child_exec_main(p, std::path::Path::new(&f));
    }
    if let Ok(r) = std::env::var("PKGSIM_PRINT_SCENARIO") {
        // debugging aid: print the generated scenario of one run, with a trace
        let run: u64 = r.parse().unwrap_or(0);
        let mut rng = rng::Rng::new(run_seed(opts.seed, p.id(), run));
        let sc = p.generate(&mut rng, run, opts.tier);
        println!("{}", serde_json::to_string_pretty(&sc).unwrap_or_default());
        let out = exec_one(p, &sc, true);
        for l in out.ctx.trace.unwrap_or_default() {
            println!("  {}", l);
        }
        return 0;
    }
    if let Ok(spec) = std::env::var("PKGSIM_INTERNAL_RANGE") {
        let parts: Vec<&str> = spec.split(':').collect();
        if parts.len() == 4 {
            let seed = parts[0].parse::<i64>().unwrap_or(1) as u64;
            let tier = if parts[1] == "thorough" { Tier::Thorough } else { Tier::Quick };
            let from = parts[2].parse::<u64>().unwrap_or(0);
            let to = parts[3].parse::<u64>().unwrap_or(0);
            return range_exec_main(p, seed, tier, from, to);
        }
        return 2;
    }
    if std::env::var("PKGSIM_INTERNAL_FIND_CRASH").is_ok() {
        return find_crash(p, opts);
    }
    if let Ok(spec) = std::env::var("PKGSIM_INTERNAL_PREFIX") {
        let parts: Vec<&str> = spec.split(':').collect();
        if parts.len() == 3 {
            let seed = parts[0].parse::<i64>().unwrap_or(1) as u64;
            let tier = if parts[1] == "thorough" { Tier::Thorough } else { Tier::Quick };
            let upto = parts[2].parse::<u64>().unwrap_or(0);
            return prefix_exec_main(p, seed, tier, upto);
        }
        return 2;
    }
    if let Some(f) = replay_file {
        return match replay(p, &f) {
            Ok(true) => 1,
            Ok(false) => 0,
            Err(e) => {
                eprintln!("pkgsim: harness error: {}", e);
                2
            }
        };
    }
    let rep = run_batch(p, opts);
    if rep.harness_error {
        2
    } else if rep.new_violations > 0 {
        1
    } else {
        0
    }
}

/// Every scenario - in a worker thread of a batch, in a child process that
/// re-executes one scenario or a range of runs, in a replay - executes on a
/// thread with the same stack size, so that a stack exhaustion found by a
/// worker reproduces in the child that has to confirm it (the main thread's
/// 8 MiB would hide what a worker's 2 MiB shows).
fn main() {
    let code = std::thread::Builder::new()
        .stack_size(framework::RUN_STACK)
        .spawn(real_main)
        .expect("cannot start the main worker thread")
        .join();
    match code {
        Ok(()) => {}
        Err(_) => std::process::exit(2),
    }
}

fn real_main() {
    let args: Vec<String> = std::env::args().collect();
    if args.len() < 2 {
        usage();
    }
    let prop = args[1].clone();
    let mut tier = match std::env::var("VERIF_TIER").ok().as_deref() {
        Some("thorough") => Tier::Thorough,
        _ => Tier::Quick,
    };
    let mut seed: u64 = std::env::var("VERIF_SEED")
        .ok()
        .and_then(|s| s.trim().parse::<i64>().ok())
        .map(|v| v as u64)
        .unwrap_or(1);
    let mut workers: usize = std::env::var("PKGSIM_WORKERS")
        .ok()
        .and_then(|s| s.parse().ok())
        .unwrap_or_else(|| {
            std::thread::available_parallelism()
                .map(|n| n.get())
                .unwrap_or(4)
                .min(16)
        });
    let mut runs_override: Option<u64> = std::env::var("PKGSIM_RUNS").ok().and_then(|s| s.parse().ok());
    let mut root = PathBuf::from(std::env::var("PKGSIM_ROOT").unwrap_or_else(|_| "/verif".to_string()));
    let mut replay_file: Option<PathBuf> = None;
    let mut no_sweep = false;
    let mut write_evidence = true;
    let mut i = 2;
    while i < args.len() {
        let need = |i: usize| -> String {
            if i + 1 >= args.len() {
                usage();
            }
            args[i + 1].clone()
        };
        match args[i].as_str() {
            "--tier" => {
                tier = match need(i).as_str() {
                    "quick" => Tier::Quick,
                    "thorough" => Tier::Thorough,
                    _ => usage(),
                };
                i += 2;
            }
            "--seed" => {
                seed = need(i).parse::<i64>().map(|v| v as u64).unwrap_or_else(|_| usage());
                i += 2;
            }
            "--workers" => {
                workers = need(i).parse().unwrap_or_else(|_| usage());
                i += 2;
            }
            "--runs" => {
                runs_override = Some(need(i).parse().unwrap_or_else(|_| usage()));
                i += 2;
            }
            "--exec-range" => {
                std::env::set_var("PKGSIM_INTERNAL_RANGE", need(i));
                i += 2;
            }
            "--find-crash" => {
                std::env::set_var("PKGSIM_INTERNAL_FIND_CRASH", "1");
                i += 1;
            }
            "--exec-prefix" => {
                std::env::set_var("PKGSIM_INTERNAL_PREFIX", need(i));
                i += 2;
            }
            "--exec-scenario" => {
                std::env::set_var("PKGSIM_INTERNAL_EXEC", need(i));
                i += 2;
            }
            "--replay" => {
                replay_file = Some(PathBuf::from(need(i)));
                i += 2;
            }
            "--root" => {
                root = PathBuf::from(need(i));
                i += 2;
            }
            "--no-sweep" => {
                no_sweep = true;
                i += 1;
            }
            "--no-evidence" => {
                write_evidence = false;
                i += 1;
            }
            _ => usage(),
        }
    }
    install_panic_hook();
    if let Err(e) = refdigest::self_test() {
        eprintln!("pkgsim: harness error: {}", e);
        std::process::exit(2);
    }
    let opts = Opts {
        tier,
        seed,
        workers,
        runs_override,
        root,
        no_sweep,
        quiet: false,
        write_evidence,
    };
    let code = match prop.as_str() {
        "C06" => dispatch(&c06::C06, &opts, replay_file),
        "C07" => dispatch(&c07::C07, &opts, replay_file),
        "C09" => dispatch(&c09::C09, &opts, replay_file),
        "C12" => dispatch(&c12::C12, &opts, replay_file),
        "C13" => dispatch(&c13::C13, &opts, replay_file),
        "C16" => dispatch(&c16::C16, &opts, replay_file),
        "C17" => dispatch(&c17::C17, &opts, replay_file),
        "C20" => dispatch(&c20::C20, &opts, replay_file),
        _ => {
            eprintln!("pkgsim: unknown or unclaimed property {}", prop);
            2
        }
    };
    disk::cleanup_all();
    std::process::exit(code);
}
