//! Simulator-owned implementations of the seams the library already takes:
//! `io::Read`, `io::BufRead`, and the caller side of `io::Write`.

use crate::framework::Ctx;
use serde::{Deserialize, Serialize};
use std::cell::RefCell;
use std::io::{self, BufRead, ErrorKind, Read};
use std::rc::Rc;

/// Lossless, human-readable encoding of byte strings in scenario files.
pub mod esc {
    use serde::{Deserialize, Deserializer, Serializer};

    pub fn encode(b: &[u8]) -> String {
        let mut s = String::with_capacity(b.len());
        for &c in b {
            match c {
                b'\\' => s.push_str("\\\\"),
                b'\n' => s.push_str("\\n"),
                0x20..=0x7e => s.push(c as char),
                _ => s.push_str(&format!("\\x{:02x}", c)),
            }
        }
        s
    }

    pub fn decode(s: &str) -> Result<Vec<u8>, String> {
        let b = s.as_bytes();
        let mut out = Vec::with_capacity(b.len());
        let mut i = 0;
        while i < b.len() {
            if b[i] == b'\\' {
                if i + 1 >= b.len() {
                    return Err("dangling backslash".into());
                }
                match b[i + 1] {
                    b'\\' => {
                        out.push(b'\\');
                        i += 2;
                    }
                    b'n' => {
                        out.push(b'\n');
                        i += 2;
                    }
                    b'x' => {
                        if i + 3 >= b.len() {
                            return Err("short \\x escape".into());
                        }
                        let h = std::str::from_utf8(&b[i + 2..i + 4]).map_err(|e| e.to_string())?;
                        out.push(u8::from_str_radix(h, 16).map_err(|e| e.to_string())?);
                        i += 4;
                    }
                    _ => return Err("bad escape".into()),
                }
            } else {
                out.push(b[i]);
                i += 1;
            }
        }
        Ok(out)
    }

    pub fn serialize<S: Serializer>(b: &Vec<u8>, s: S) -> Result<S::Ok, S::Error> {
        s.serialize_str(&encode(b))
    }

    pub fn deserialize<'de, D: Deserializer<'de>>(d: D) -> Result<Vec<u8>, D::Error> {
        let s = String::deserialize(d)?;
        decode(&s).map_err(serde::de::Error::custom)
    }
}

#[derive(Clone, Copy, Debug, Serialize, Deserialize, PartialEq, Eq)]
pub enum ErrKind {
    Other,
    BrokenPipe,
    UnexpectedEof,
    TimedOut,
    WouldBlock,
    ConnectionReset,
    InvalidData,
    /// errors that carry an operating-system code (`from_raw_os_error`), as every
    /// error of a real file or socket does: EAGAIN, EIO, ENOSPC, EISDIR
    OsEagain,
    OsEio,
    OsEnospc,
    OsEisdir,
    /// kind Other whose payload is itself an io::Error of kind Interrupted (what a
    /// wrapping reader - a decompressor, a TLS stream - makes of an inner EINTR): an
    /// error like any other, not an invitation to retry
    WrapsInterrupted,
}

impl ErrKind {
    pub const ALL: [ErrKind; 12] = [
        ErrKind::Other,
        ErrKind::BrokenPipe,
        ErrKind::UnexpectedEof,
        ErrKind::TimedOut,
        ErrKind::WouldBlock,
        ErrKind::ConnectionReset,
        ErrKind::InvalidData,
        ErrKind::OsEagain,
        ErrKind::OsEio,
        ErrKind::OsEnospc,
        ErrKind::OsEisdir,
        ErrKind::WrapsInterrupted,
    ];
    fn os_code(self) -> Option<i32> {
        match self {
            ErrKind::OsEagain => Some(libc::EAGAIN),
            ErrKind::OsEio => Some(libc::EIO),
            ErrKind::OsEnospc => Some(libc::ENOSPC),
            ErrKind::OsEisdir => Some(libc::EISDIR),
            _ => None,
        }
    }
    /// The error value a reader returns for this kind.
    pub fn make(self, msg: &'static str) -> io::Error {
        if self == ErrKind::WrapsInterrupted {
            return io::Error::new(ErrorKind::Other, io::Error::from(ErrorKind::Interrupted));
        }
        match self.os_code() {
            Some(code) => io::Error::from_raw_os_error(code),
            None => io::Error::new(self.to_io(), msg),
        }
    }
    pub fn to_io(self) -> ErrorKind {
        match self {
            ErrKind::Other => ErrorKind::Other,
            ErrKind::BrokenPipe => ErrorKind::BrokenPipe,
            ErrKind::UnexpectedEof => ErrorKind::UnexpectedEof,
            ErrKind::TimedOut => ErrorKind::TimedOut,
            ErrKind::WouldBlock => ErrorKind::WouldBlock,
            ErrKind::ConnectionReset => ErrorKind::ConnectionReset,
            ErrKind::InvalidData => ErrorKind::InvalidData,
            ErrKind::WrapsInterrupted => ErrorKind::Other,
            ErrKind::OsEagain | ErrKind::OsEio | ErrKind::OsEnospc | ErrKind::OsEisdir => {
                io::Error::from_raw_os_error(self.os_code().unwrap()).kind()
            }
        }
    }
}

#[derive(Clone, Copy, Debug, Serialize, Deserialize, PartialEq, Eq)]
pub enum ReadStep {
    /// Deliver at most n (>= 1) bytes at this call.
    Give(usize),
    /// EINTR: ErrorKind::Interrupted, no data consumed.
    Intr,
    /// A hard error; the reader keeps working afterwards (so that code which
    /// swallows the error and carries on is visible as "hashed past").
    Fail(ErrKind),
    /// A persistent failure (EIO on a dying disk, EISDIR, ...): this call and
    /// every later one fails.  Code that skips failed reads and retries spins
    /// forever; the seam's call budget turns that into a liveness violation.
    FailForever(ErrKind),
    /// The producer died: from now on every call reports end of input.
    Eof,
}

/// What a simulated reader observed; shared with the oracle.
#[derive(Default, Debug)]
pub struct SeamLog {
    pub calls: u64,
    pub delivered: usize,
    pub intr: u64,
    pub short: u64,
    pub hard_errors: Vec<(u64, ErrKind)>,
    pub persistent: bool,
    pub early_eof_at: Option<usize>,
    pub eof_reported: u64,
    pub zero_len_buf: u64,
    pub events: Vec<(u8, u64)>,
}

pub type SharedLog = Rc<RefCell<SeamLog>>;

impl SeamLog {
    /// Fold what the seam saw into the run context.
    pub fn absorb(&self, ctx: &mut Ctx, tag: &'static str) {
        for (k, n) in &self.events {
            ctx.step(tag, *k as u64, *n);
        }
        for _ in 0..self.intr {
            ctx.fault("interrupted");
        }
        if self.short > 0 {
            ctx.nontrivial = true;
            *ctx.faults.entry("short_read").or_insert(0) += self.short;
        }
        for _ in &self.hard_errors {
            ctx.fault(if self.persistent { "persistent_error" } else { "hard_error" });
        }
        if self.early_eof_at.is_some() {
            ctx.fault("early_eof");
        }
    }
}

/// A scripted `io::Read`.
pub struct SimReader {
    data: Vec<u8>,
    pos: usize,
    script: Vec<ReadStep>,
    si: usize,
    dead: bool,
    broken: Option<ErrKind>,
    budget: u64,
    pub log: SharedLog,
    /// re-entrancy: at the start of the given call (1-based) the reader runs
    /// this closure - an independent, nested use of the library on the same
    /// thread while the outer call is in flight
    hook: Option<(u64, Box<dyn FnMut()>)>,
}

impl SimReader {
    pub fn with_hook(mut self, at_call: u64, f: Box<dyn FnMut()>) -> SimReader {
        self.hook = Some((at_call, f));
        self
    }
    pub fn new(data: Vec<u8>, script: Vec<ReadStep>) -> SimReader {
        let budget = call_budget(data.len(), script.len());
        SimReader {
            data,
            pos: 0,
            script,
            si: 0,
            dead: false,
            broken: None,
            budget,
            log: Rc::new(RefCell::new(SeamLog::default())),
            hook: None,
        }
    }
    pub fn log(&self) -> SharedLog {
        self.log.clone()
    }
}

impl Read for SimReader {
    fn read(&mut self, buf: &mut [u8]) -> io::Result<usize> {
        let _seam_alloc = crate::alloc_meter::Exclude::new();
        let call_no = self.log.borrow().calls + 1;
        if self.hook.as_ref().is_some_and(|h| h.0 == call_no) {
            let mut h = self.hook.take().unwrap();
            (h.1)();
        }
        let mut log = self.log.borrow_mut();
        log.calls += 1;
        if log.calls > self.budget {
            drop(log);
            panic!("SIM-LIVENESS: read() called more than {} times for {} bytes", self.budget, self.data.len());
        }
        if buf.is_empty() {
            log.zero_len_buf += 1;
            log.events.push((9, 0));
            return Ok(0);
        }
        if self.dead {
            log.eof_reported += 1;
            log.events.push((3, 0));
            return Ok(0);
        }
        if let Some(k) = self.broken {
            log.events.push((5, k as u64));
            return Err(k.make("simulated persistent I/O error"));
        }
        let remaining = self.data.len() - self.pos;
        let step = if self.si < self.script.len() {
            let s = self.script[self.si];
            self.si += 1;
            s
        } else {
            ReadStep::Give(usize::MAX)
        };
        match step {
            ReadStep::Give(n) => {
                let n = n.max(1).min(buf.len()).min(remaining);
                if n < remaining.min(buf.len()) {
                    log.short += 1;
                }
                buf[..n].copy_from_slice(&self.data[self.pos..self.pos + n]);
                self.pos += n;
                log.delivered += n;
                if n == 0 {
                    log.eof_reported += 1;
                }
                log.events.push((0, n as u64));
                Ok(n)
            }
            ReadStep::Intr => {
                log.intr += 1;
                log.events.push((1, 0));
                Err(io::Error::new(ErrorKind::Interrupted, "simulated EINTR"))
            }
            ReadStep::Fail(k) => {
                let c = log.calls;
                log.hard_errors.push((c, k));
                log.events.push((2, k as u64));
                Err(k.make("simulated I/O error"))
            }
            ReadStep::FailForever(k) => {
                let c = log.calls;
                log.hard_errors.push((c, k));
                log.persistent = true;
                log.events.push((2, k as u64));
                self.broken = Some(k);
                Err(k.make("simulated persistent I/O error"))
            }
            ReadStep::Eof => {
                self.dead = true;
                if remaining > 0 {
                    log.early_eof_at = Some(self.pos);
                }
                log.eof_reported += 1;
                log.events.push((3, 0));
                Ok(0)
            }
        }
    }
}

/// A scripted `io::BufRead` that implements `fill_buf`/`consume` directly, so
/// that the chunk exposed to the library ends wherever the script says
/// (inside a multi-byte character, between records, after "PKGNAME=", ...).
pub struct SimBufReader {
    data: Vec<u8>,
    pos: usize,
    avail_end: usize,
    script: Vec<ReadStep>,
    si: usize,
    dead: bool,
    broken: Option<ErrKind>,
    budget: u64,
    pub log: SharedLog,
    /// re-entrancy hook, as in SimReader
    hook: Option<(u64, Box<dyn FnMut()>)>,
}

impl SimBufReader {
    pub fn with_hook(mut self, at_call: u64, f: Box<dyn FnMut()>) -> SimBufReader {
        self.hook = Some((at_call, f));
        self
    }
    pub fn new(data: Vec<u8>, script: Vec<ReadStep>) -> SimBufReader {
        let budget = call_budget(data.len(), script.len());
        SimBufReader {
            data,
            pos: 0,
            avail_end: 0,
            script,
            si: 0,
            dead: false,
            broken: None,
            budget,
            log: Rc::new(RefCell::new(SeamLog::default())),
            hook: None,
        }
    }
    pub fn log(&self) -> SharedLog {
        self.log.clone()
    }
}

impl BufRead for SimBufReader {
    fn fill_buf(&mut self) -> io::Result<&[u8]> {
        let _seam_alloc = crate::alloc_meter::Exclude::new();
        let call_no = self.log.borrow().calls + 1;
        if self.hook.as_ref().is_some_and(|h| h.0 == call_no) {
            let mut h = self.hook.take().unwrap();
            (h.1)();
        }
        let mut log = self.log.borrow_mut();
        log.calls += 1;
        if log.calls > self.budget {
            drop(log);
            panic!("SIM-LIVENESS: fill_buf() called more than {} times for {} bytes", self.budget, self.data.len());
        }
        if self.pos < self.avail_end {
            log.events.push((4, (self.avail_end - self.pos) as u64));
            return Ok(&self.data[self.pos..self.avail_end]);
        }
        if self.dead {
            log.eof_reported += 1;
            log.events.push((3, 0));
            return Ok(&[]);
        }
        if let Some(k) = self.broken {
            log.events.push((5, k as u64));
            return Err(k.make("simulated persistent I/O error"));
        }
        let remaining = self.data.len() - self.pos;
        let step = if self.si < self.script.len() {
            let s = self.script[self.si];
            self.si += 1;
            s
        } else {
            ReadStep::Give(usize::MAX)
        };
        match step {
            ReadStep::Give(n) => {
                let n = n.max(1).min(remaining);
                if n < remaining {
                    log.short += 1;
                }
                self.avail_end = self.pos + n;
                if n == 0 {
                    log.eof_reported += 1;
                }
                log.events.push((0, n as u64));
                Ok(&self.data[self.pos..self.avail_end])
            }
            ReadStep::Intr => {
                log.intr += 1;
                log.events.push((1, 0));
                Err(io::Error::new(ErrorKind::Interrupted, "simulated EINTR"))
            }
            ReadStep::Fail(k) => {
                let c = log.calls;
                log.hard_errors.push((c, k));
                log.events.push((2, k as u64));
                Err(k.make("simulated I/O error"))
            }
            ReadStep::FailForever(k) => {
                let c = log.calls;
                log.hard_errors.push((c, k));
                log.persistent = true;
                log.events.push((2, k as u64));
                self.broken = Some(k);
                Err(k.make("simulated persistent I/O error"))
            }
            ReadStep::Eof => {
                self.dead = true;
                if remaining > 0 {
                    log.early_eof_at = Some(self.pos);
                }
                log.eof_reported += 1;
                log.events.push((3, 0));
                Ok(&[])
            }
        }
    }

    fn consume(&mut self, amt: usize) {
        let _seam_alloc = crate::alloc_meter::Exclude::new();
        let amt = amt.min(self.avail_end - self.pos);
        self.pos += amt;
        self.log.borrow_mut().delivered += amt;
    }
}

impl Read for SimBufReader {
    fn read(&mut self, buf: &mut [u8]) -> io::Result<usize> {
        let _seam_alloc = crate::alloc_meter::Exclude::new();
        let n = {
            let avail = self.fill_buf()?;
            let n = avail.len().min(buf.len());
            buf[..n].copy_from_slice(&avail[..n]);
            n
        };
        self.consume(n);
        Ok(n)
    }
}

/// Bound on seam calls for a consumer that makes progress: generous enough for
/// any sane buffering strategy, small enough to catch a retry loop that never
/// advances.  Deterministic (no wall clock).
pub fn call_budget(bytes: usize, faults: usize) -> u64 {
    4 * (bytes as u64 + faults as u64) + 64
}

/// A text sink that accepts `limit` bytes and then reports an error (a closed pipe
/// behind `write!`): a whole piece is either taken or refused.
pub struct FailingSink {
    pub out: String,
    pub limit: usize,
    pub failed: bool,
}

impl FailingSink {
    pub fn new(limit: usize) -> FailingSink {
        FailingSink {
            out: String::new(),
            limit,
            failed: false,
        }
    }
}

impl std::fmt::Write for FailingSink {
    fn write_str(&mut self, s: &str) -> std::fmt::Result {
        if self.failed || self.out.len() + s.len() > self.limit {
            self.failed = true;
            return Err(std::fmt::Error);
        }
        self.out.push_str(s);
        Ok(())
    }
}
