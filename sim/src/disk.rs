//! SimDisk: a per-run scratch directory (on the real kernel file system - the
//! library opens paths itself and has no FS trait) that is removed when the
//! run ends, including when the run panics.

use std::path::{Path, PathBuf};
use std::sync::atomic::{AtomicU64, Ordering};

static COUNTER: AtomicU64 = AtomicU64::new(0);

static BASE: std::sync::OnceLock<PathBuf> = std::sync::OnceLock::new();

fn usable(base: &Path) -> bool {
    let d = base.join(format!("pkgsim-{}", std::process::id()));
    // process ids are reused: a killed earlier process with this id may have left
    // its scratch tree behind, and a run must never start on somebody else's files
    let _ = std::fs::remove_dir_all(&d);
    std::fs::create_dir_all(&d).is_ok() && std::fs::write(d.join(".probe"), b"x").is_ok()
}

/// Remove the scratch trees of processes that no longer exist (left behind when a
/// run was killed).  Best effort; never touches the tree of a live process.
fn sweep_stale(base: &Path) {
    let me = std::process::id();
    if let Ok(rd) = std::fs::read_dir(base) {
        for e in rd.flatten() {
            let name = e.file_name();
            let Some(name) = name.to_str() else { continue };
            let Some(pid) = name.strip_prefix("pkgsim-").and_then(|p| p.parse::<u32>().ok()) else { continue };
            if pid != me && !Path::new(&format!("/proc/{}", pid)).exists() {
                let _ = std::fs::remove_dir_all(e.path());
            }
        }
    }
}

/// Per-process scratch root: $PKGSIM_SCRATCH, else /dev/shm (tmpfs), else the
/// system temp directory - the first one that is actually writable.
pub fn scratch_base() -> PathBuf {
    BASE.get_or_init(|| {
        let mut cands: Vec<PathBuf> = Vec::new();
        if let Ok(s) = std::env::var("PKGSIM_SCRATCH") {
            if !s.is_empty() {
                cands.push(PathBuf::from(s));
            }
        }
        cands.push(PathBuf::from("/dev/shm"));
        cands.push(std::env::temp_dir());
        for c in &cands {
            if c.is_dir() && usable(c) {
                sweep_stale(c);
                return c.join(format!("pkgsim-{}", std::process::id()));
            }
        }
        std::env::temp_dir().join(format!("pkgsim-{}", std::process::id()))
    })
    .clone()
}

/// Remove the per-process scratch directory (called once at exit).
pub fn cleanup_all() {
    let _ = std::fs::remove_dir_all(scratch_base());
}

pub struct SimDisk {
    root: PathBuf,
}

impl SimDisk {
    pub fn new() -> SimDisk {
        let n = COUNTER.fetch_add(1, Ordering::Relaxed);
        let root = scratch_base().join(format!("r{}", n));
        std::fs::create_dir_all(&root).unwrap_or_else(|e| panic!("SIM-HARNESS: cannot create {}: {}", root.display(), e));
        SimDisk { root }
    }
    pub fn root(&self) -> &Path {
        &self.root
    }
    pub fn path(&self, rel: &str) -> PathBuf {
        self.root.join(rel)
    }
    pub fn mkdir(&self, rel: &str) {
        std::fs::create_dir_all(self.path(rel)).unwrap_or_else(|e| panic!("SIM-HARNESS: mkdir {}: {}", rel, e));
    }
    pub fn write(&self, rel: &str, data: &[u8]) {
        let p = self.path(rel);
        if let Some(parent) = p.parent() {
            std::fs::create_dir_all(parent).unwrap_or_else(|e| panic!("SIM-HARNESS: mkdir for {}: {}", rel, e));
        }
        std::fs::write(&p, data).unwrap_or_else(|e| panic!("SIM-HARNESS: write {}: {}", rel, e));
    }
    pub fn remove(&self, rel: &str) {
        let _ = std::fs::remove_file(self.path(rel));
    }
    pub fn exists(&self, rel: &str) -> bool {
        self.path(rel).exists()
    }
}

impl Drop for SimDisk {
    fn drop(&mut self) {
        let _ = std::fs::remove_dir_all(&self.root);
    }
}
