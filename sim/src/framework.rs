//! Generic machinery: per-run context, batch runner, minimiser, replay files,
//! known-findings matching and evidence output.
//!
//! A run is two pure stages: `generate(seed) -> Scenario` and
//! `execute(Scenario) -> Outcome`.  Execution draws no random numbers and
//! reads no clock, so a replay file is just a serialised scenario.

use crate::rng::{hash_str, mix, splitmix64, Rng};
use serde::de::DeserializeOwned;
use serde::Serialize;
use serde_json::{json, Value};
use std::cell::RefCell;
use std::collections::{BTreeMap, HashSet};
use std::panic::{catch_unwind, AssertUnwindSafe};
use std::path::{Path, PathBuf};
use std::sync::atomic::{AtomicU64, Ordering};
use std::sync::Mutex;
use std::time::Instant;

#[derive(Clone, Copy, Debug, PartialEq, Eq)]
pub enum Tier {
    Quick,
    Thorough,
}

impl Tier {
    pub fn name(&self) -> &'static str {
        match self {
            Tier::Quick => "quick",
            Tier::Thorough => "thorough",
        }
    }
}

#[derive(Clone, Debug, Serialize, serde::Deserialize, PartialEq, Eq)]
pub struct Violation {
    /// Name of the failed invariant, e.g. "write-failed-on-wellformed".
    pub clause: String,
    /// Panic site (file:line + message class) when there is one, else "".
    pub site: String,
    /// Human-readable detail; not part of the signature.
    pub detail: String,
}

impl Violation {
    pub fn new(clause: &str, detail: String) -> Violation {
        Violation {
            clause: clause.to_string(),
            site: String::new(),
            detail,
        }
    }
    pub fn signature(&self) -> String {
        if self.site.is_empty() {
            self.clause.clone()
        } else {
            format!("{}@{}", self.clause, self.site)
        }
    }
}

pub type Outcome = Result<(), Violation>;

macro_rules! fail {
    ($clause:expr, $($arg:tt)*) => {
        return Err($crate::framework::Violation::new($clause, format!($($arg)*)))
    };
}
pub(crate) use fail;

macro_rules! ensure {
    ($cond:expr, $clause:expr, $($arg:tt)*) => {
        if !($cond) {
            return Err($crate::framework::Violation::new($clause, format!($($arg)*)));
        }
    };
}
pub(crate) use ensure;

/// Per-run recording context.  Everything here is a pure function of the
/// scenario being executed.
pub struct Ctx {
    /// Digest of every recorded event (order-sensitive).
    pub ev: u64,
    /// Digest of the *schedule* (seam events with payload lengths, fault
    /// kinds and positions) - used to count distinct explored schedules.
    pub sched: u64,
    /// Logical steps: seam calls executed under the simulator.
    pub steps: u64,
    /// At least one fault, cut or non-trivial interleaving was exercised.
    pub nontrivial: bool,
    pub faults: BTreeMap<&'static str, u64>,
    pub probes: BTreeMap<&'static str, u64>,
    pub trace: Option<Vec<String>>,
}

impl Ctx {
    pub fn new(trace: bool) -> Ctx {
        Ctx {
            ev: 0x5eed,
            sched: 0x5c4ed,
            steps: 0,
            nontrivial: false,
            faults: BTreeMap::new(),
            probes: BTreeMap::new(),
            trace: if trace { Some(Vec::new()) } else { None },
        }
    }
    /// Record an event (goes into the event digest).
    #[inline]
    pub fn event(&mut self, tag: &'static str, a: u64, b: u64) {
        self.ev = mix(mix(mix(self.ev, hash_str(tag)), a), b);
        if let Some(t) = &mut self.trace {
            t.push(format!("{} {} {}", tag, a, b));
        }
    }
    /// Record an event with a text payload (trace only shows it when tracing).
    pub fn event_s(&mut self, tag: &'static str, s: &str) {
        self.ev = mix(mix(self.ev, hash_str(tag)), hash_str(s));
        if let Some(t) = &mut self.trace {
            let mut short: String = s.chars().take(200).collect();
            if short.len() < s.len() {
                short.push_str("...");
            }
            t.push(format!("{} {:?}", tag, short));
        }
    }
    /// Record a seam step: part of event digest, schedule signature and step count.
    #[inline]
    pub fn step(&mut self, tag: &'static str, a: u64, b: u64) {
        self.steps += 1;
        self.sched = mix(mix(mix(self.sched, hash_str(tag)), a), b);
        self.event(tag, a, b);
    }
    /// A fault actually fired.
    #[inline]
    pub fn fault(&mut self, kind: &'static str) {
        *self.faults.entry(kind).or_insert(0) += 1;
        self.nontrivial = true;
        self.sched = mix(self.sched, hash_str(kind));
        if let Some(t) = &mut self.trace {
            t.push(format!("FAULT {}", kind));
        }
    }
    /// A rare condition was reached.
    #[inline]
    pub fn probe(&mut self, name: &'static str) {
        *self.probes.entry(name).or_insert(0) += 1;
    }
}

pub trait Property: Sync {
    type Sc: Serialize + DeserializeOwned + Clone + Send + std::fmt::Debug;

    fn id(&self) -> &'static str;
    /// "exploration" or "fault_enumeration".
    fn level(&self) -> &'static str;
    fn runs(&self, tier: Tier) -> u64;
    fn generate(&self, rng: &mut Rng, run: u64, tier: Tier) -> Self::Sc;
    fn execute(&self, sc: &Self::Sc, ctx: &mut Ctx) -> Outcome;
    /// Smaller candidate scenarios (one step of shrinking).
    fn shrink(&self, sc: &Self::Sc) -> Vec<Self::Sc>;
    /// Complete enumerations derived from one generated scenario (every single
    /// cut position, every error position, ...).  Empty when the scenario is
    /// too large or the run index is not selected for sweeping.
    fn sweep(&self, _sc: &Self::Sc, _run: u64, _tier: Tier) -> Vec<Self::Sc> {
        Vec::new()
    }
    /// The input/history class of a violation, used to match known findings so
    /// that a *different* violation of the same property is still reported.
    fn classify(&self, _sc: &Self::Sc, _v: &Violation) -> String {
        String::new()
    }
    fn rule(&self) -> String;
    fn components_real(&self) -> Vec<&'static str>;
    fn components_stub(&self) -> Vec<&'static str>;
    fn assumptions(&self) -> Vec<&'static str>;
    /// Probes that are expected to be non-zero in the thorough tier.
    fn expected_probes(&self) -> Vec<&'static str> {
        Vec::new()
    }
    /// Extra evidence keys (e.g. "not_covered").
    fn extra_evidence(&self) -> Value {
        json!({})
    }
}

thread_local! {
    static LAST_PANIC: RefCell<Option<(String, String)>> = const { RefCell::new(None) };
}

pub fn install_panic_hook() {
    std::panic::set_hook(Box::new(|info| {
        let loc = info
            .location()
            .map(|l| {
                let f = l.file();
                // keep only the path tail so that scratch copies of the repo
                // give the same site string as /repo itself
                let tail = match f.rfind("/src/") {
                    Some(i) => &f[i + 1..],
                    None => f,
                };
                format!("{}:{}", tail, l.line())
            })
            .unwrap_or_else(|| "?".to_string());
        let msg = if let Some(s) = info.payload().downcast_ref::<&str>() {
            s.to_string()
        } else if let Some(s) = info.payload().downcast_ref::<String>() {
            s.clone()
        } else {
            "<non-string panic>".to_string()
        };
        LAST_PANIC.with(|p| *p.borrow_mut() = Some((loc, msg)));
    }));
}

/// Reduce a panic message to a stable class (strip the varying payload).
fn panic_class(msg: &str) -> String {
    let m: String = msg.chars().take(60).collect();
    // drop digits so that "index 7 out of range for slice of length 3" and
    // "index 9 ..." are one class
    let mut out = String::new();
    let mut last_hash = false;
    for c in m.chars() {
        if c.is_ascii_digit() {
            if !last_hash {
                out.push('#');
                last_hash = true;
            }
        } else {
            out.push(c);
            last_hash = false;
        }
    }
    out
}

pub struct RunOutput {
    pub outcome: Outcome,
    pub ctx: Ctx,
}

/// Execute one scenario with panic isolation.
pub fn exec_one<P: Property>(p: &P, sc: &P::Sc, trace: bool) -> RunOutput {
    let mut ctx = Ctx::new(trace);
    LAST_PANIC.with(|p| *p.borrow_mut() = None);
    let r = catch_unwind(AssertUnwindSafe(|| p.execute(sc, &mut ctx)));
    let outcome = match r {
        Ok(o) => o,
        Err(_) => {
            let (loc, msg) = LAST_PANIC
                .with(|p| p.borrow_mut().take())
                .unwrap_or(("?".into(), "?".into()));
            if msg.starts_with("SIM-HARNESS") {
                Err(Violation {
                    clause: "harness-error".to_string(),
                    site: String::new(),
                    detail: format!("{} at {}", msg, loc),
                })
            } else if msg.starts_with("SIM-LIVENESS") {
                Err(Violation {
                    clause: "liveness-seam-call-budget".to_string(),
                    site: String::new(),
                    detail: msg,
                })
            } else {
                Err(Violation {
                    clause: "panic".to_string(),
                    site: format!("{} {}", loc, panic_class(&msg)),
                    detail: format!("panicked at {}: {}", loc, msg),
                })
            }
        }
    };
    if let Err(v) = &outcome {
        ctx.ev = mix(ctx.ev, hash_str(&v.signature()));
    }
    RunOutput { outcome, ctx }
}

#[derive(Clone, Debug)]
pub struct Opts {
    pub tier: Tier,
    pub seed: u64,
    pub workers: usize,
    pub runs_override: Option<u64>,
    pub root: PathBuf,
    pub no_sweep: bool,
    pub quiet: bool,
    pub write_evidence: bool,
}

#[derive(Clone, Debug, serde::Deserialize, Serialize)]
pub struct KnownFinding {
    pub property: String,
    /// "known" or "fixed"
    pub status: String,
    pub clause: String,
    /// substring that must occur in the violation site ("" = any)
    #[serde(default)]
    pub site: String,
    /// input/history class as returned by Property::classify ("" = any)
    #[serde(default)]
    pub class: String,
    pub what: String,
    #[serde(default)]
    pub commit: Option<String>,
}

pub fn load_known(root: &Path) -> Result<Vec<KnownFinding>, String> {
    let p = root.join("known_findings.json");
    if !p.exists() {
        return Ok(Vec::new());
    }
    let s = std::fs::read_to_string(&p).map_err(|e| format!("{}: {}", p.display(), e))?;
    #[derive(serde::Deserialize)]
    struct F {
        findings: Vec<KnownFinding>,
    }
    let f: F = serde_json::from_str(&s).map_err(|e| format!("{}: {}", p.display(), e))?;
    Ok(f.findings)
}

fn known_match<'a>(
    known: &'a [KnownFinding],
    prop: &str,
    v: &Violation,
    class: &str,
) -> Option<&'a KnownFinding> {
    known.iter().find(|k| {
        k.status == "known"
            && k.property == prop
            && k.clause == v.clause
            && (k.site.is_empty() || v.site.contains(&k.site))
            && (k.class.is_empty() || k.class == class)
    })
}

struct Found<Sc> {
    run: u64,
    sub: u64,
    sc: Sc,
    v: Violation,
    class: String,
    count: u64,
}

struct Acc<Sc> {
    evaluations: u64,
    sweep_evaluations: u64,
    steps: u64,
    fault_free_runs: u64,
    nontrivial_runs: u64,
    faults: BTreeMap<&'static str, u64>,
    probes: BTreeMap<&'static str, u64>,
    sigs: HashSet<u64>,
    batch_digest: u64,
    found: BTreeMap<String, Found<Sc>>,
    samples: Vec<(u64, Value)>,
}

impl<Sc> Acc<Sc> {
    fn new() -> Self {
        Acc {
            evaluations: 0,
            sweep_evaluations: 0,
            steps: 0,
            fault_free_runs: 0,
            nontrivial_runs: 0,
            faults: BTreeMap::new(),
            probes: BTreeMap::new(),
            sigs: HashSet::new(),
            batch_digest: 0,
            found: BTreeMap::new(),
            samples: Vec::new(),
        }
    }
}

pub fn run_seed(batch_seed: u64, prop: &str, run: u64) -> u64 {
    splitmix64(batch_seed ^ hash_str(prop) ^ splitmix64(run.wrapping_add(0x1234_5678)))
}

fn record<P: Property>(
    p: &P,
    acc: &mut Acc<P::Sc>,
    run: u64,
    sub: u64,
    sc: &P::Sc,
    out: RunOutput,
) {
    acc.evaluations += 1;
    if sub > 0 {
        acc.sweep_evaluations += 1;
    }
    acc.steps += out.ctx.steps;
    if out.ctx.faults.is_empty() {
        acc.fault_free_runs += 1;
    }
    if out.ctx.nontrivial {
        acc.nontrivial_runs += 1;
        acc.sigs.insert(out.ctx.sched);
        if acc.samples.len() < 3 {
            acc.samples
                .push((run * 1_000_000 + sub, serde_json::to_value(sc).unwrap_or(Value::Null)));
        }
    }
    for (k, v) in &out.ctx.faults {
        *acc.faults.entry(k).or_insert(0) += v;
    }
    for (k, v) in &out.ctx.probes {
        *acc.probes.entry(k).or_insert(0) += v;
    }
    // order-independent combination of (run, sub, event digest)
    acc.batch_digest ^= splitmix64(mix(mix(run, sub), out.ctx.ev));
    if let Err(v) = out.outcome {
        let class = p.classify(sc, &v);
        let key = format!("{}|{}", v.signature(), class);
        match acc.found.get_mut(&key) {
            Some(f) => {
                f.count += 1;
                if (run, sub) < (f.run, f.sub) {
                    f.run = run;
                    f.sub = sub;
                    f.sc = sc.clone();
                    f.v = v;
                }
            }
            None => {
                acc.found.insert(
                    key,
                    Found {
                        run,
                        sub,
                        sc: sc.clone(),
                        v,
                        class,
                        count: 1,
                    },
                );
            }
        }
    }
}

/// Shrink a failing scenario while the same signature persists.
pub fn minimise<P: Property>(p: &P, sc: &P::Sc, sig: &str, cap: usize) -> (P::Sc, usize) {
    let mut cur = sc.clone();
    let mut execs = 0usize;
    'outer: loop {
        let cands = p.shrink(&cur);
        for c in cands {
            if execs >= cap {
                break 'outer;
            }
            execs += 1;
            let out = exec_one(p, &c, false);
            if let Err(v) = out.outcome {
                if v.signature() == sig {
                    cur = c;
                    continue 'outer;
                }
            }
        }
        break;
    }
    (cur, execs)
}

#[derive(Serialize, serde::Deserialize)]
pub struct ReplayFile {
    pub property: String,
    pub seed: u64,
    pub run: u64,
    pub sub: u64,
    pub signature: String,
    pub class: String,
    pub detail: String,
    pub event_digest: String,
    pub minimise_execs: usize,
    pub trace: Vec<String>,
    pub scenario: Value,
}

pub struct BatchReport {
    pub new_violations: usize,
    pub known_matched: usize,
    pub harness_error: bool,
}

pub fn run_batch<P: Property>(p: &P, opts: &Opts) -> BatchReport {
    let t0 = Instant::now();
    let id = p.id();
    let known = match load_known(&opts.root) {
        Ok(k) => k,
        Err(e) => {
            eprintln!("pkgsim: harness error: {}", e);
            return BatchReport {
                new_violations: 0,
                known_matched: 0,
                harness_error: true,
            };
        }
    };
    let runs = opts.runs_override.unwrap_or_else(|| p.runs(opts.tier));
    if !opts.quiet {
        println!(
            "pkgsim {} tier={} seed={} runs={} workers={}",
            id,
            opts.tier.name(),
            opts.seed,
            runs,
            opts.workers
        );
    }
    let next = AtomicU64::new(0);
    let merged: Mutex<Vec<Acc<P::Sc>>> = Mutex::new(Vec::new());
    const CHUNK: u64 = 32;
    std::thread::scope(|s| {
        for _ in 0..opts.workers.max(1) {
            s.spawn(|| {
                let mut acc: Acc<P::Sc> = Acc::new();
                loop {
                    let start = next.fetch_add(CHUNK, Ordering::Relaxed);
                    if start >= runs {
                        break;
                    }
                    for run in start..(start + CHUNK).min(runs) {
                        let mut rng = Rng::new(run_seed(opts.seed, id, run));
                        let sc = p.generate(&mut rng, run, opts.tier);
                        let out = exec_one(p, &sc, false);
                        record(p, &mut acc, run, 0, &sc, out);
                        if !opts.no_sweep {
                            for (i, s2) in p.sweep(&sc, run, opts.tier).into_iter().enumerate() {
                                let out = exec_one(p, &s2, false);
                                record(p, &mut acc, run, i as u64 + 1, &s2, out);
                            }
                        }
                    }
                }
                merged.lock().unwrap().push(acc);
            });
        }
    });
    let accs = merged.into_inner().unwrap();
    // merge (all operations commutative, or resolved by lowest run index)
    let mut tot: Acc<P::Sc> = Acc::new();
    for a in accs {
        tot.evaluations += a.evaluations;
        tot.sweep_evaluations += a.sweep_evaluations;
        tot.steps += a.steps;
        tot.fault_free_runs += a.fault_free_runs;
        tot.nontrivial_runs += a.nontrivial_runs;
        for (k, v) in a.faults {
            *tot.faults.entry(k).or_insert(0) += v;
        }
        for (k, v) in a.probes {
            *tot.probes.entry(k).or_insert(0) += v;
        }
        tot.sigs.extend(a.sigs);
        tot.batch_digest ^= a.batch_digest;
        tot.samples.extend(a.samples);
        for (k, f) in a.found {
            match tot.found.get_mut(&k) {
                Some(g) => {
                    g.count += f.count;
                    if (f.run, f.sub) < (g.run, g.sub) {
                        let c = g.count;
                        *g = f;
                        g.count = c;
                    }
                }
                None => {
                    tot.found.insert(k, f);
                }
            }
        }
    }
    tot.samples.sort_by_key(|s| s.0);
    tot.samples.truncate(3);

    // classify and report
    let mut new_violations = 0usize;
    let mut known_lines: Vec<String> = Vec::new();
    let mut violation_lines: Vec<String> = Vec::new();
    let mut harness_error = false;
    let mut founds: Vec<&Found<P::Sc>> = tot.found.values().collect();
    founds.sort_by_key(|f| (f.run, f.sub));
    let mut reported = 0;
    for f in founds {
        if f.v.clause == "harness-error" || f.v.clause == "harness-model" {
            eprintln!("pkgsim: harness error in run {}: {}", f.run, f.v.detail);
            harness_error = true;
            continue;
        }
        if let Some(k) = known_match(&known, id, &f.v, &f.class) {
            known_lines.push(format!(
                "KNOWN-FINDING: property={} {} [signature={} class={} hits={}]",
                id,
                k.what,
                f.v.signature(),
                f.class,
                f.count
            ));
            continue;
        }
        new_violations += 1;
        if reported >= 6 {
            continue;
        }
        reported += 1;
        let sig = f.v.signature();
        let (min_sc, execs) = minimise(p, &f.sc, &sig, 3000);
        // replay the minimised scenario twice; it must reproduce exactly
        let o1 = exec_one(p, &min_sc, true);
        let o2 = exec_one(p, &min_sc, false);
        let (ok, v1) = match (&o1.outcome, &o2.outcome) {
            (Err(a), Err(b)) => (
                a.signature() == sig && b.signature() == sig && o1.ctx.ev == o2.ctx.ev,
                Some(a.clone()),
            ),
            _ => (false, None),
        };
        if !ok {
            eprintln!(
                "pkgsim: harness error: minimised scenario for {} run {} does not reproduce deterministically",
                sig, f.run
            );
            harness_error = true;
            continue;
        }
        let v1 = v1.unwrap();
        let file = opts.root.join("replays").join(format!(
            "{}-s{}-r{}{}-{:08x}.json",
            id,
            opts.seed,
            f.run,
            if f.sub > 0 {
                format!("x{}", f.sub)
            } else {
                String::new()
            },
            (hash_str(&format!("{}|{}", sig, f.class)) & 0xffff_ffff)
        ));
        let rf = ReplayFile {
            property: id.to_string(),
            seed: opts.seed,
            run: f.run,
            sub: f.sub,
            signature: sig.clone(),
            class: f.class.clone(),
            detail: v1.detail.clone(),
            event_digest: format!("{:016x}", o1.ctx.ev),
            minimise_execs: execs,
            trace: o1.ctx.trace.clone().unwrap_or_default(),
            scenario: serde_json::to_value(&min_sc).unwrap_or(Value::Null),
        };
        let _ = std::fs::create_dir_all(opts.root.join("replays"));
        match std::fs::write(&file, serde_json::to_string_pretty(&rf).unwrap()) {
            Ok(()) => {}
            Err(e) => {
                eprintln!("pkgsim: harness error: cannot write {}: {}", file.display(), e);
                harness_error = true;
                continue;
            }
        }
        println!(
            "violation: property={} signature={} class={} hits={} first_run={} detail={}",
            id, sig, f.class, f.count, f.run, v1.detail
        );
        violation_lines.push(format!(
            "VIOLATION property={} replay={}",
            id,
            file.display()
        ));
    }

    let wall = t0.elapsed().as_secs_f64();
    // evidence
    let distinct = tot.sigs.len() as u64;
    let runs_per_hour = if wall > 0.0 {
        (tot.evaluations as f64 / wall * 3600.0) as u64
    } else {
        0
    };
    let mut zero_probes: Vec<&str> = Vec::new();
    for name in p.expected_probes() {
        if tot.probes.get(name).copied().unwrap_or(0) == 0 {
            zero_probes.push(name);
        }
    }
    if opts.write_evidence {
        let mut coverage = json!({
            "evaluations": tot.evaluations,
            "distinct_nontrivial": distinct,
            "rule": p.rule(),
            "samples": tot.samples.iter().map(|s| s.1.clone()).collect::<Vec<_>>(),
            "generated_runs": runs,
            "sweep_evaluations": tot.sweep_evaluations,
            "nontrivial_runs": tot.nontrivial_runs,
            "fault_free_runs": tot.fault_free_runs,
            "logical_steps": tot.steps,
            "simulated_time": format!("{} logical steps (seam calls); the library reads no clock", tot.steps),
            "runs_per_hour": runs_per_hour,
            "seeds_per_hour": runs_per_hour,
            "faults_fired": tot.faults,
            "probes": tot.probes,
            "probes_expected_but_zero": zero_probes,
            "components": { "real": p.components_real(), "stub": p.components_stub() },
            "known_findings_matched": known_lines.len(),
            "batch_digest": format!("{:016x}", tot.batch_digest),
            "workers": opts.workers,
            "exhaustive": false,
        });
        if let (Value::Object(c), Value::Object(extra)) = (&mut coverage, p.extra_evidence()) {
            for (k, v) in extra {
                c.insert(k, v);
            }
        }
        let ev = json!({
            "property_id": id,
            "tier": opts.tier.name(),
            "seed": opts.seed,
            "level": p.level(),
            "coverage": coverage,
            "assumptions": p.assumptions(),
            "wall_s": wall,
            "violations": new_violations,
        });
        let dir = opts.root.join("evidence");
        let _ = std::fs::create_dir_all(&dir);
        let path = dir.join(format!("{}.json", id));
        if let Err(e) = std::fs::write(&path, serde_json::to_string_pretty(&ev).unwrap() + "\n") {
            eprintln!("pkgsim: harness error: cannot write {}: {}", path.display(), e);
            harness_error = true;
        }
    }
    if !opts.quiet {
        println!(
            "pkgsim {} done: evaluations={} (sweeps {}) distinct_schedules={} steps={} faults_fired={} wall={:.1}s batch_digest={:016x}",
            id,
            tot.evaluations,
            tot.sweep_evaluations,
            distinct,
            tot.steps,
            tot.faults.values().sum::<u64>(),
            wall,
            tot.batch_digest
        );
        if opts.tier == Tier::Thorough && !zero_probes.is_empty() {
            println!("warning: probes never hit: {}", zero_probes.join(", "));
        }
    }
    for l in &known_lines {
        println!("{}", l);
    }
    for l in &violation_lines {
        println!("{}", l);
    }
    if new_violations > reported {
        println!(
            "note: {} further distinct violation classes not minimised",
            new_violations - reported
        );
    }
    BatchReport {
        new_violations,
        known_matched: known_lines.len(),
        harness_error,
    }
}

/// Replay a file: exit status semantics are decided by the caller.
pub fn replay<P: Property>(p: &P, file: &Path) -> Result<bool, String> {
    let s = std::fs::read_to_string(file).map_err(|e| format!("{}: {}", file.display(), e))?;
    let rf: ReplayFile = serde_json::from_str(&s).map_err(|e| format!("{}: {}", file.display(), e))?;
    if rf.property != p.id() {
        return Err(format!(
            "replay file is for property {}, not {}",
            rf.property,
            p.id()
        ));
    }
    let sc: P::Sc = serde_json::from_value(rf.scenario).map_err(|e| format!("scenario: {}", e))?;
    let out = exec_one(p, &sc, true);
    for l in out.ctx.trace.as_deref().unwrap_or(&[]) {
        println!("  {}", l);
    }
    match out.outcome {
        Err(v) => {
            let same_sig = v.signature() == rf.signature;
            let same_dig = format!("{:016x}", out.ctx.ev) == rf.event_digest;
            println!(
                "replay: violation signature={} (recorded {}) digest_match={} detail={}",
                v.signature(),
                rf.signature,
                same_dig,
                v.detail
            );
            if !same_sig {
                println!("replay: NOTE signature differs from the recorded one");
            }
            println!("VIOLATION property={} replay={}", p.id(), file.display());
            Ok(true)
        }
        Ok(()) => {
            println!("replay: scenario no longer violates {} (recorded signature {})", p.id(), rf.signature);
            Ok(false)
        }
    }
}

// ---------------------------------------------------------------------------
// Shrinking helpers
// ---------------------------------------------------------------------------

/// Candidate smaller vectors: empty, halves, block and single removals.
pub fn shrink_vec<T: Clone>(v: &[T]) -> Vec<Vec<T>> {
    let n = v.len();
    let mut out = Vec::new();
    if n == 0 {
        return out;
    }
    out.push(Vec::new());
    if n >= 2 {
        out.push(v[..n / 2].to_vec());
        out.push(v[n / 2..].to_vec());
    }
    let mut block = n / 4;
    while block >= 2 {
        let mut i = 0;
        while i + block <= n {
            let mut w = v[..i].to_vec();
            w.extend_from_slice(&v[i + block..]);
            out.push(w);
            i += block;
        }
        block /= 2;
    }
    if n <= 64 {
        for i in 0..n {
            let mut w = v.to_vec();
            w.remove(i);
            out.push(w);
        }
    } else {
        // sample of single removals at both ends
        for i in (0..8).chain(n - 8..n) {
            let mut w = v.to_vec();
            w.remove(i);
            out.push(w);
        }
    }
    out
}

/// Candidate smaller numbers.
pub fn shrink_usize(n: usize) -> Vec<usize> {
    let mut out = Vec::new();
    if n == 0 {
        return out;
    }
    out.push(0);
    if n > 1 {
        out.push(n / 2);
        out.push(n - 1);
    }
    out.dedup();
    out
}
