//! Generic machinery: per-run context, batch runner, minimiser, replay files,
//! known-findings matching and evidence output.
//!
//! A run is two pure stages: `generate(seed) -> Scenario` and
//! `execute(Scenario) -> Outcome`.  Execution draws no random numbers and
//! reads no clock, so a replay file is just a serialised scenario.

use crate::rng::{hash_str, mix, splitmix64, Rng};
use serde::de::DeserializeOwned;
use serde::Serialize;
use serde_json::{json, Value};
use std::cell::RefCell;
use std::collections::{BTreeMap, HashSet};
use std::panic::{catch_unwind, AssertUnwindSafe};
use std::path::{Path, PathBuf};
use std::sync::atomic::{AtomicU64, Ordering};
use std::sync::Mutex;
use std::time::Instant;

#[derive(Clone, Copy, Debug, PartialEq, Eq)]
pub enum Tier {
    Quick,
    Thorough,
}

impl Tier {
    pub fn name(&self) -> &'static str {
        match self {
            Tier::Quick => "quick",
            Tier::Thorough => "thorough",
        }
    }
}

#[derive(Clone, Debug, Serialize, serde::Deserialize, PartialEq, Eq)]
pub struct Violation {
    /// Name of the failed invariant, e.g. "write-failed-on-wellformed".
    pub clause: String,
    /// Panic site (file:line + message class) when there is one, else "".
    pub site: String,
    /// Human-readable detail; not part of the signature.
    pub detail: String,
}

impl Violation {
    pub fn new(clause: &str, detail: String) -> Violation {
        Violation {
            clause: clause.to_string(),
            site: String::new(),
            detail,
        }
    }
    pub fn signature(&self) -> String {
        if self.site.is_empty() {
            self.clause.clone()
        } else {
            format!("{}@{}", self.clause, self.site)
        }
    }
}

pub type Outcome = Result<(), Violation>;

macro_rules! fail {
    ($clause:expr, $($arg:tt)*) => {
        return Err($crate::framework::Violation::new($clause, format!($($arg)*)))
    };
}
pub(crate) use fail;

/// Run one library call under the work meter (allocator seam).
macro_rules! metered {
    ($ctx:expr, $input:expr, $e:expr) => {{
        let __w = $crate::framework::Work::start();
        let __r = $e;
        __w.stop($ctx, $input);
        __r
    }};
}
pub(crate) use metered;

macro_rules! ensure {
    ($cond:expr, $clause:expr, $($arg:tt)*) => {
        if !($cond) {
            return Err($crate::framework::Violation::new($clause, format!($($arg)*)));
        }
    };
}
pub(crate) use ensure;

/// Per-run recording context.  Everything here is a pure function of the
/// scenario being executed.
pub struct Ctx {
    /// Digest of every recorded event (order-sensitive).
    pub ev: u64,
    /// Digest of the *schedule* (seam events with payload lengths, fault
    /// kinds and positions) - used to count distinct explored schedules.
    pub sched: u64,
    /// Logical steps: seam calls executed under the simulator.
    pub steps: u64,
    /// At least one fault, cut or non-trivial interleaving was exercised.
    pub nontrivial: bool,
    pub faults: BTreeMap<&'static str, u64>,
    pub probes: BTreeMap<&'static str, u64>,
    pub trace: Option<Vec<String>>,
    /// Work meter (allocator seam): bytes allocated inside metered library
    /// calls, the input bytes those calls were given, and their number.
    pub lib_alloc: u64,
    pub lib_input: u64,
    pub lib_calls: u64,
    /// largest ratio of one metered call: bytes it allocated / (bytes it was
    /// given + CALL_ALLOWANCE), in thousandths, and that call's numbers
    pub work_ratio_milli: u64,
    pub work_worst: (u64, u64),
}

/// Fixed allowance per metered call (small inputs have fixed costs: a
/// BufReader's buffer, a hasher, an error value).
pub const CALL_ALLOWANCE: u64 = 4096;

/// Stack size of every thread that executes scenarios (Rust's default for
/// spawned threads, made explicit so that it does not depend on the
/// environment and is the same in batches, children and replays).
pub const RUN_STACK: usize = 2 * 1024 * 1024;

/// Measures the bytes one library call allocates (see `alloc_meter`).
pub struct Work {
    a0: u64,
}

impl Work {
    #[inline]
    pub fn start() -> Work {
        Work {
            a0: crate::alloc_meter::work_bytes(),
        }
    }
    /// `input` = the number of bytes the call was given to work on.
    #[inline]
    pub fn stop(self, ctx: &mut Ctx, input: usize) {
        let a = crate::alloc_meter::work_bytes().wrapping_sub(self.a0);
        ctx.lib_alloc += a;
        ctx.lib_input += input as u64;
        ctx.lib_calls += 1;
        let r = a.saturating_mul(1000) / (input as u64 + CALL_ALLOWANCE);
        if r > ctx.work_ratio_milli {
            ctx.work_ratio_milli = r;
            ctx.work_worst = (a, input as u64);
        }
    }
}


impl Ctx {
    pub fn new(trace: bool) -> Ctx {
        Ctx {
            ev: 0x5eed,
            sched: 0x5c4ed,
            steps: 0,
            nontrivial: false,
            faults: BTreeMap::new(),
            probes: BTreeMap::new(),
            trace: if trace { Some(Vec::new()) } else { None },
            lib_alloc: 0,
            lib_input: 0,
            lib_calls: 0,
            work_ratio_milli: 0,
            work_worst: (0, 0),
        }
    }
    /// Record an event (goes into the event digest).
    #[inline]
    pub fn event(&mut self, tag: &'static str, a: u64, b: u64) {
        self.ev = mix(mix(mix(self.ev, hash_str(tag)), a), b);
        if let Some(t) = &mut self.trace {
            t.push(format!("{} {} {}", tag, a, b));
        }
    }
    /// Record an event with a text payload (trace only shows it when tracing).
    pub fn event_s(&mut self, tag: &'static str, s: &str) {
        self.ev = mix(mix(self.ev, hash_str(tag)), hash_str(s));
        if let Some(t) = &mut self.trace {
            let mut short: String = s.chars().take(200).collect();
            if short.len() < s.len() {
                short.push_str("...");
            }
            t.push(format!("{} {:?}", tag, short));
        }
    }
    /// Record a seam step: part of event digest, schedule signature and step count.
    #[inline]
    pub fn step(&mut self, tag: &'static str, a: u64, b: u64) {
        self.steps += 1;
        self.sched = mix(mix(mix(self.sched, hash_str(tag)), a), b);
        self.event(tag, a, b);
    }
    /// A fault actually fired.
    #[inline]
    pub fn fault(&mut self, kind: &'static str) {
        *self.faults.entry(kind).or_insert(0) += 1;
        self.nontrivial = true;
        self.sched = mix(self.sched, hash_str(kind));
        if let Some(t) = &mut self.trace {
            t.push(format!("FAULT {}", kind));
        }
    }
    /// A rare condition was reached.
    #[inline]
    pub fn probe(&mut self, name: &'static str) {
        *self.probes.entry(name).or_insert(0) += 1;
    }
}

pub trait Property: Sync {
    type Sc: Serialize + DeserializeOwned + Clone + Send + std::fmt::Debug;

    fn id(&self) -> &'static str;
    /// "exploration" or "fault_enumeration".
    fn level(&self) -> &'static str;
    fn runs(&self, tier: Tier) -> u64;
    fn generate(&self, rng: &mut Rng, run: u64, tier: Tier) -> Self::Sc;
    fn execute(&self, sc: &Self::Sc, ctx: &mut Ctx) -> Outcome;
    /// Offer smaller candidate scenarios one at a time (one step of
    /// shrinking).  `emit` returns true when the candidate was accepted; the
    /// implementation must then return at once.  Candidates are built lazily so
    /// that shrinking a large scenario costs no more memory than the scenario.
    fn shrink(&self, sc: &Self::Sc, emit: &mut dyn FnMut(Self::Sc) -> bool);
    /// Complete enumerations derived from one generated scenario (every single
    /// cut position, every error position, ...).  Empty when the scenario is
    /// too large or the run index is not selected for sweeping.
    fn sweep(&self, _sc: &Self::Sc, _run: u64, _tier: Tier) -> Vec<Self::Sc> {
        Vec::new()
    }
    /// The input/history class of a violation, used to match known findings so
    /// that a *different* violation of the same property is still reported.
    fn classify(&self, _sc: &Self::Sc, _v: &Violation) -> String {
        String::new()
    }
    fn rule(&self) -> String;
    fn components_real(&self) -> Vec<&'static str>;
    fn components_stub(&self) -> Vec<&'static str>;
    fn assumptions(&self) -> Vec<&'static str>;
    /// Probes that are expected to be non-zero in the thorough tier.
    fn expected_probes(&self) -> Vec<&'static str> {
        Vec::new()
    }
    /// Work budget: a run violates `work-budget-exceeded` when one metered
    /// library call allocated more than this factor times its allowance (the
    /// bytes it was given + 4 KiB).  Calibrated per property at >= 32 times
    /// the largest ratio seen on the pinned tree (thorough tier), so only a
    /// blow-up in the order of the input size can trip it.
    fn work_factor(&self) -> Option<u64> {
        None
    }
    /// Extra evidence keys (e.g. "not_covered").
    fn extra_evidence(&self) -> Value {
        json!({})
    }
}

static LAST_PANIC_GLOBAL: Mutex<(String, String)> = Mutex::new((String::new(), String::new()));

thread_local! {
    static LAST_PANIC: RefCell<Option<(String, String)>> = const { RefCell::new(None) };
}

pub fn install_panic_hook() {
    std::panic::set_hook(Box::new(|info| {
        let loc = info
            .location()
            .map(|l| {
                let f = l.file();
                // keep only the path tail so that scratch copies of the repo
                // give the same site string as /repo itself
                let tail = match f.rfind("/src/") {
                    Some(i) => &f[i + 1..],
                    None => f,
                };
                format!("{}:{}", tail, l.line())
            })
            .unwrap_or_else(|| "?".to_string());
        let msg = if let Some(s) = info.payload().downcast_ref::<&str>() {
            s.to_string()
        } else if let Some(s) = info.payload().downcast_ref::<String>() {
            s.clone()
        } else {
            "<non-string panic>".to_string()
        };
        if let Ok(mut g) = LAST_PANIC_GLOBAL.lock() {
            *g = (loc.clone(), msg.clone());
        }
        LAST_PANIC.with(|p| *p.borrow_mut() = Some((loc, msg)));
    }));
}

/// Reduce a panic message to a stable class (strip the varying payload).
fn panic_class(msg: &str) -> String {
    let m: String = msg.chars().take(60).collect();
    // drop digits so that "index 7 out of range for slice of length 3" and
    // "index 9 ..." are one class
    let mut out = String::new();
    let mut last_hash = false;
    let mut quoted: Option<char> = None;
    for c in m.chars() {
        // drop quoted payloads ('x', `text`) so that one defect is one class
        if let Some(q) = quoted {
            if c == q {
                quoted = None;
                out.push(c);
            }
            continue;
        }
        if c == '\'' || c == '`' {
            quoted = Some(c);
            out.push(c);
            last_hash = false;
            continue;
        }
        if c.is_ascii_digit() {
            if !last_hash {
                out.push('#');
                last_hash = true;
            }
        } else {
            out.push(c);
            last_hash = false;
        }
    }
    out
}

pub struct RunOutput {
    pub outcome: Outcome,
    pub ctx: Ctx,
}

/// Run `f` on a thread of its own (same stack size as every scenario-executing
/// thread), so that per-thread state inside the library starts out pristine and the
/// run does not depend on what this worker executed before.  A panic in `f` is
/// carried over to the caller, with its recorded location.
pub fn in_fresh_thread<R: Send>(f: impl FnOnce() -> R + Send) -> R {
    let r = std::thread::scope(|s| {
        std::thread::Builder::new()
            .stack_size(RUN_STACK)
            .spawn_scoped(s, move || {
                let r = catch_unwind(AssertUnwindSafe(f));
                r.map_err(|payload| (payload, LAST_PANIC.with(|p| p.borrow_mut().take())))
            })
            .expect("SIM-HARNESS: cannot spawn the fresh thread")
            .join()
            .expect("SIM-HARNESS: fresh thread died outside the scenario")
    });
    match r {
        Ok(v) => v,
        Err((payload, last)) => {
            LAST_PANIC.with(|p| *p.borrow_mut() = last);
            std::panic::resume_unwind(payload)
        }
    }
}

/// A call made earlier on this thread whose reader *panics* part-way (after `give`
/// bytes), the panic being caught as a worker pool or `catch_unwind` would: what the
/// unwound call leaves behind must not reach the next call.  Returns whether it panicked.
pub fn call_with_panicking_reader(data: Vec<u8>, give: usize, f: impl FnOnce(&mut crate::seams::SimReader)) -> bool {
    use crate::seams::{ReadStep, SimReader};
    let mut r = SimReader::new(data, vec![ReadStep::Give(give.max(1))])
        .with_hook(2, Box::new(|| panic!("SIM-READER-PANIC: the reader of an earlier call panicked")));
    let res = catch_unwind(AssertUnwindSafe(|| f(&mut r)));
    LAST_PANIC.with(|p| *p.borrow_mut() = None);
    res.is_err()
}

thread_local! {
    /// what `in_fresh_thread_with_exit` runs while the thread's thread-locals are being
    /// destroyed (a value registered before the library's own thread-locals are first
    /// used is destroyed after them on the platforms at hand)
    static AT_THREAD_EXIT: RefCell<Option<ExitGuard>> = const { RefCell::new(None) };
}

struct ExitGuard(Option<Box<dyn FnOnce()>>);

impl Drop for ExitGuard {
    fn drop(&mut self) {
        if let Some(f) = self.0.take() {
            f();
        }
    }
}

/// Like `in_fresh_thread`, and `at_exit` is called from the destructor of a thread-local
/// of that thread while the thread exits - the place where a library's own per-thread
/// state may already be gone.  Its result (None if it panicked or never ran) comes back too.
pub fn in_fresh_thread_with_exit<R: Send, X: Send + 'static>(
    f: impl FnOnce() -> R + Send,
    at_exit: impl FnOnce() -> X + Send + 'static,
) -> (R, Option<X>) {
    let (tx, rx) = std::sync::mpsc::channel::<X>();
    let r = in_fresh_thread(move || {
        AT_THREAD_EXIT.with(|g| {
            *g.borrow_mut() = Some(ExitGuard(Some(Box::new(move || {
                // a panic in a thread-local destructor would abort the process
                if let Ok(x) = catch_unwind(AssertUnwindSafe(at_exit)) {
                    let _ = tx.send(x);
                }
            }))));
        });
        f()
    });
    (r, rx.try_recv().ok())
}

/// A second caller thread for one run: a persistent helper that executes the
/// closures handed to it one at a time, while the calling thread waits.  Which of
/// the two threads makes a given library call is decided by the scenario (a bit
/// mask), so an object can be created on one thread and used on the other, and
/// per-thread state inside the library sees a different history on each.  The
/// helper lives for one run only: its history is a function of the scenario.
pub struct Helper {
    tx: Option<std::sync::mpsc::Sender<Box<dyn FnOnce() + Send + 'static>>>,
    /// signalled by the helper's loop after a job has *returned* (not from inside the
    /// job: the job's frame still holds the borrowed references until it returns)
    done: std::sync::mpsc::Receiver<()>,
    handle: Option<std::thread::JoinHandle<()>>,
}

impl Helper {
    pub fn new() -> Helper {
        let (tx, rx) = std::sync::mpsc::channel::<Box<dyn FnOnce() + Send + 'static>>();
        let (done_tx, done) = std::sync::mpsc::channel::<()>();
        let handle = std::thread::Builder::new()
            .stack_size(RUN_STACK)
            .spawn(move || {
                for job in rx {
                    job();
                    if done_tx.send(()).is_err() {
                        break;
                    }
                }
            })
            .expect("SIM-HARNESS: cannot spawn the helper thread");
        Helper {
            tx: Some(tx),
            done,
            handle: Some(handle),
        }
    }

    /// Run `f` on the helper thread and wait for it.  A panic in `f` is carried
    /// over to the caller, with its recorded location.
    ///
    /// No `Send` bound: the two threads never run at the same time (the caller is
    /// parked until the job is done), so every value is only ever touched by one
    /// thread at a time.  Callers enable the helper only when the library types
    /// that cross are `Send + Sync` themselves (`is_send_sync!`), i.e. when a user
    /// could have moved them too.
    pub fn call<'a, T: 'a>(&self, f: impl FnOnce() -> T + 'a) -> T {
        struct Carry<X>(X);
        // SAFETY: see above - strictly alternating execution.
        unsafe impl<X> Send for Carry<X> {}
        impl<X> Carry<X> {
            fn into_inner(self) -> X {
                self.0
            }
        }
        type Panicked = (Box<dyn std::any::Any + Send>, Option<(String, String)>);
        let (rtx, rrx) = std::sync::mpsc::channel::<Carry<Result<T, Panicked>>>();
        let f = Carry(f);
        let job: Box<dyn FnOnce() + Send + 'a> = Box::new(move || {
            let f = f.into_inner();
            let r = catch_unwind(AssertUnwindSafe(f)).map_err(|payload| (payload, LAST_PANIC.with(|p| p.borrow_mut().take())));
            let _ = rtx.send(Carry(r));
        });
        // SAFETY: the job borrows from the caller's frame ('a).  This function does not
        // return before the job has run and *returned* on the helper (the helper's loop
        // signals `done` after the call), or was dropped unrun (the helper is gone: recv
        // fails), so the borrows never outlive their owners.
        let job: Box<dyn FnOnce() + Send + 'static> = unsafe { std::mem::transmute(job) };
        self.tx.as_ref().expect("helper already shut down").send(job).expect("SIM-HARNESS: helper thread is gone");
        if self.done.recv().is_err() {
            panic!("SIM-HARNESS: helper thread died");
        }
        match rrx.try_recv().map(Carry::into_inner) {
            Ok(Ok(v)) => v,
            Ok(Err((payload, last))) => {
                LAST_PANIC.with(|p| *p.borrow_mut() = last);
                std::panic::resume_unwind(payload)
            }
            Err(_) => panic!("SIM-HARNESS: helper thread died"),
        }
    }
}

/// `is_send_sync!(Type)`: a compile-time `bool` - whether `Type: Send + Sync` (inherent
/// associated constants shadow trait ones when their bounds hold).
macro_rules! is_send_sync {
    ($t:ty) => {{
        struct __W<T>(std::marker::PhantomData<T>);
        #[allow(dead_code)]
        trait __No {
            const V: bool = false;
        }
        impl<T> __No for __W<T> {}
        #[allow(dead_code)]
        impl<T: Send + Sync> __W<T> {
            const V: bool = true;
        }
        <__W<$t>>::V
    }};
}
pub(crate) use is_send_sync;

impl Drop for Helper {
    fn drop(&mut self) {
        self.tx.take();
        if let Some(h) = self.handle.take() {
            let _ = h.join();
        }
    }
}

/// `on_thread!(helper, mask, i, expr)`: evaluate `expr` on the helper thread when a
/// helper exists and bit `i mod 63` of `mask` is set, on the current thread otherwise.
macro_rules! on_thread {
    ($helper:expr, $mask:expr, $i:expr, $e:expr) => {
        match &$helper {
            Some(__h) if (($mask) >> ((($i) as u64) % 63)) & 1 == 1 => __h.call(|| $e),
            _ => $e,
        }
    };
}
pub(crate) use on_thread;

/// Execute one scenario with panic isolation.
pub fn exec_one<P: Property>(p: &P, sc: &P::Sc, trace: bool) -> RunOutput {
    let mut ctx = Ctx::new(trace);
    LAST_PANIC.with(|p| *p.borrow_mut() = None);
    let r = catch_unwind(AssertUnwindSafe(|| p.execute(sc, &mut ctx)));
    let outcome = match r {
        Ok(o) => o,
        Err(_) => {
            let (loc, msg) = LAST_PANIC
                .with(|p| p.borrow_mut().take())
                .unwrap_or(("?".into(), "?".into()));
            if msg.starts_with("SIM-HARNESS") {
                Err(Violation {
                    clause: "harness-error".to_string(),
                    site: String::new(),
                    detail: format!("{} at {}", msg, loc),
                })
            } else if msg.starts_with("SIM-LIVENESS") {
                Err(Violation {
                    clause: "liveness-seam-call-budget".to_string(),
                    site: String::new(),
                    detail: msg,
                })
            } else {
                Err(Violation {
                    clause: "panic".to_string(),
                    site: format!("{} {}", loc, panic_class(&msg)),
                    detail: format!("panicked at {}: {}", loc, msg),
                })
            }
        }
    };
    let mut outcome = outcome;
    if outcome.is_ok() && ctx.lib_calls > 0 {
        if let Some(f) = p.work_factor() {
            if ctx.work_ratio_milli > f.saturating_mul(1000) {
                outcome = Err(Violation::new(
                    "work-budget-exceeded",
                    format!(
                        "one library call allocated {} bytes for {} bytes of input: {} times its allowance of input + {} bytes (budget factor {})",
                        ctx.work_worst.0,
                        ctx.work_worst.1,
                        ctx.work_ratio_milli / 1000,
                        CALL_ALLOWANCE,
                        f
                    ),
                ));
            }
        }
    }
    if let Err(v) = &outcome {
        ctx.ev = mix(ctx.ev, hash_str(&v.signature()));
    }
    RunOutput { outcome, ctx }
}

#[derive(Clone, Debug)]
pub struct Opts {
    pub tier: Tier,
    pub seed: u64,
    pub workers: usize,
    pub runs_override: Option<u64>,
    pub root: PathBuf,
    pub no_sweep: bool,
    pub quiet: bool,
    pub write_evidence: bool,
}

#[derive(Clone, Debug, serde::Deserialize, Serialize)]
pub struct KnownFinding {
    pub property: String,
    /// "known" or "fixed"
    pub status: String,
    pub clause: String,
    /// substring that must occur in the violation site ("" = any)
    #[serde(default)]
    pub site: String,
    /// input/history class as returned by Property::classify ("" = any)
    #[serde(default)]
    pub class: String,
    pub what: String,
    #[serde(default)]
    pub commit: Option<String>,
}

pub fn load_known(root: &Path) -> Result<Vec<KnownFinding>, String> {
    let p = root.join("known_findings.json");
    if !p.exists() {
        return Ok(Vec::new());
    }
    let s = std::fs::read_to_string(&p).map_err(|e| format!("{}: {}", p.display(), e))?;
    #[derive(serde::Deserialize)]
    struct F {
        findings: Vec<KnownFinding>,
    }
    let f: F = serde_json::from_str(&s).map_err(|e| format!("{}: {}", p.display(), e))?;
    Ok(f.findings)
}

fn known_match<'a>(
    known: &'a [KnownFinding],
    prop: &str,
    v: &Violation,
    class: &str,
) -> Option<&'a KnownFinding> {
    known.iter().find(|k| {
        k.status == "known"
            && k.property == prop
            && k.clause == v.clause
            && (k.site.is_empty() || v.site.contains(&k.site))
            && (k.class.is_empty() || k.class == class)
    })
}

struct Found<Sc> {
    run: u64,
    sub: u64,
    sc: Sc,
    v: Violation,
    class: String,
    count: u64,
}

struct Acc<Sc> {
    evaluations: u64,
    sweep_evaluations: u64,
    steps: u64,
    fault_free_runs: u64,
    nontrivial_runs: u64,
    faults: BTreeMap<&'static str, u64>,
    probes: BTreeMap<&'static str, u64>,
    sigs: HashSet<u64>,
    sigs_capped: bool,
    batch_digest: u64,
    lib_alloc: u64,
    lib_input: u64,
    lib_calls: u64,
    /// largest per-run ratio lib_alloc / allowance, in thousandths
    max_work_ratio_milli: u64,
    found: BTreeMap<String, Found<Sc>>,
    samples: Vec<(u64, Value)>,
}

impl<Sc> Acc<Sc> {
    fn new() -> Self {
        Acc {
            evaluations: 0,
            sweep_evaluations: 0,
            steps: 0,
            fault_free_runs: 0,
            nontrivial_runs: 0,
            faults: BTreeMap::new(),
            probes: BTreeMap::new(),
            sigs: HashSet::new(),
            sigs_capped: false,
            batch_digest: 0,
            lib_alloc: 0,
            lib_input: 0,
            lib_calls: 0,
            max_work_ratio_milli: 0,
            found: BTreeMap::new(),
            samples: Vec::new(),
        }
    }
}

pub fn run_seed(batch_seed: u64, prop: &str, run: u64) -> u64 {
    splitmix64(batch_seed ^ hash_str(prop) ^ splitmix64(run.wrapping_add(0x1234_5678)))
}

fn record<P: Property>(
    p: &P,
    acc: &mut Acc<P::Sc>,
    run: u64,
    sub: u64,
    sc: &P::Sc,
    out: RunOutput,
) {
    acc.evaluations += 1;
    if sub > 0 {
        acc.sweep_evaluations += 1;
    }
    acc.steps += out.ctx.steps;
    if out.ctx.faults.is_empty() {
        acc.fault_free_runs += 1;
    }
    if out.ctx.nontrivial {
        acc.nontrivial_runs += 1;
        // memory bound: beyond 3M signatures per worker the count becomes a lower bound
        if acc.sigs.len() < 3_000_000 {
            acc.sigs.insert(out.ctx.sched);
        } else {
            acc.sigs_capped = true;
        }
        if acc.samples.len() < 3 {
            acc.samples
                .push((run * 1_000_000 + sub, serde_json::to_value(sc).unwrap_or(Value::Null)));
        }
    }
    for (k, v) in &out.ctx.faults {
        *acc.faults.entry(k).or_insert(0) += v;
    }
    for (k, v) in &out.ctx.probes {
        *acc.probes.entry(k).or_insert(0) += v;
    }
    // order-independent combination of (run, sub, event digest)
    acc.batch_digest ^= splitmix64(mix(mix(run, sub), out.ctx.ev));
    if out.ctx.lib_calls > 0 {
        acc.lib_alloc += out.ctx.lib_alloc;
        acc.lib_input += out.ctx.lib_input;
        acc.lib_calls += out.ctx.lib_calls;
        let r = out.ctx.work_ratio_milli;
        if r > acc.max_work_ratio_milli {
            acc.max_work_ratio_milli = r;
            if std::env::var_os("PKGSIM_WORK_DEBUG").is_some() {
                eprintln!("WORK run={} sub={} ratio={}.{:03} call_alloc={} call_input={} calls={}", run, sub, r / 1000, r % 1000, out.ctx.work_worst.0, out.ctx.work_worst.1, out.ctx.lib_calls);
            }
        }
    }
    if debug_runs() {
        println!("RUN {} {} {:016x} steps={}", run, sub, out.ctx.ev, out.ctx.steps);
    }
    if let Err(v) = out.outcome {
        let class = p.classify(sc, &v);
        let key = format!("{}|{}", v.signature(), class);
        match acc.found.get_mut(&key) {
            Some(f) => {
                f.count += 1;
                if (run, sub) < (f.run, f.sub) {
                    f.run = run;
                    f.sub = sub;
                    f.sc = sc.clone();
                    f.v = v;
                }
            }
            None => {
                acc.found.insert(
                    key,
                    Found {
                        run,
                        sub,
                        sc: sc.clone(),
                        v,
                        class,
                        count: 1,
                    },
                );
            }
        }
    }
}

/// Shrink a failing scenario while the same signature persists.
pub fn minimise<P: Property>(p: &P, sc: &P::Sc, sig: &str, cap: usize) -> (P::Sc, usize) {
    let mut cur = sc.clone();
    let mut execs = 0usize;
    let t = Instant::now();
    loop {
        let mut accepted: Option<P::Sc> = None;
        let mut stop = false;
        p.shrink(&cur, &mut |c| {
            // bounded in executions and in wall time (the latter only bounds how
            // small the reported scenario gets, never whether it is reported)
            if execs >= cap || t.elapsed().as_secs() >= 60 {
                stop = true;
                return true;
            }
            execs += 1;
            let out = exec_one(p, &c, false);
            if let Err(v) = out.outcome {
                if v.signature() == sig {
                    accepted = Some(c);
                    return true;
                }
            }
            false
        });
        match accepted {
            Some(c) => cur = c,
            None => break,
        }
        if stop {
            break;
        }
    }
    (cur, execs)
}

#[derive(Serialize, serde::Deserialize)]
pub struct ReplayFile {
    pub property: String,
    pub seed: u64,
    pub run: u64,
    pub sub: u64,
    pub signature: String,
    pub class: String,
    pub detail: String,
    pub event_digest: String,
    pub minimise_execs: usize,
    pub trace: Vec<String>,
    pub scenario: Value,
}

pub struct BatchReport {
    pub new_violations: usize,
    pub known_matched: usize,
    pub harness_error: bool,
}

pub fn run_batch<P: Property>(p: &P, opts: &Opts) -> BatchReport {
    let t0 = Instant::now();
    let id = p.id();
    let known = match load_known(&opts.root) {
        Ok(k) => k,
        Err(e) => {
            eprintln!("pkgsim: harness error: {}", e);
            return BatchReport {
                new_violations: 0,
                known_matched: 0,
                harness_error: true,
            };
        }
    };
    let runs = opts.runs_override.unwrap_or_else(|| p.runs(opts.tier));
    if !opts.quiet {
        println!(
            "pkgsim {} tier={} seed={} runs={} workers={}",
            id,
            opts.tier.name(),
            opts.seed,
            runs,
            opts.workers
        );
    }
    let next = AtomicU64::new(0);
    let merged: Mutex<Vec<Acc<P::Sc>>> = Mutex::new(Vec::new());
    const CHUNK: u64 = 32;
    let nworkers = opts.workers.max(1);
    // per-worker "busy since" slots for the wall-clock hang watchdog
    let slots: Vec<(AtomicU64, AtomicU64, AtomicU64)> = (0..nworkers)
        .map(|_| (AtomicU64::new(0), AtomicU64::new(0), AtomicU64::new(0)))
        .collect();
    let done = std::sync::atomic::AtomicBool::new(false);
    let worker_died = std::sync::atomic::AtomicBool::new(false);
    // wall-clock diagnostics only (never part of a digest or a verdict)
    let slowest_ms = AtomicU64::new(0);
    let slow_debug_ms: u64 = std::env::var("PKGSIM_SLOW_DEBUG").ok().and_then(|s| s.parse().ok()).unwrap_or(u64::MAX);
    let hang_ms: u64 = std::env::var("PKGSIM_HANG_MS").ok().and_then(|s| s.parse().ok()).unwrap_or(3000);
    std::thread::scope(|s| {
        let mut handles = Vec::new();
        for w in 0..nworkers {
            let slots = &slots;
            let next = &next;
            let merged = &merged;
            let slowest_ms = &slowest_ms;
            handles.push(std::thread::Builder::new().stack_size(RUN_STACK).spawn_scoped(s, move || {
                let mut acc: Acc<P::Sc> = Acc::new();
                let slot = &slots[w];
                loop {
                    let start = next.fetch_add(CHUNK, Ordering::Relaxed);
                    if start >= runs {
                        break;
                    }
                    for run in start..(start + CHUNK).min(runs) {
                        let mut rng = Rng::new(run_seed(opts.seed, id, run));
                        let sc = p.generate(&mut rng, run, opts.tier);
                        slot.1.store(run, Ordering::Relaxed);
                        slot.2.store(0, Ordering::Relaxed);
                        slot.0.store(t0.elapsed().as_millis() as u64 + 1, Ordering::Release);
                        let t_run = std::time::Instant::now();
                        let out = exec_one(p, &sc, false);
                        slot.0.store(0, Ordering::Release);
                        let el = t_run.elapsed().as_millis() as u64;
                        slowest_ms.fetch_max(el, Ordering::Relaxed);
                        if el >= slow_debug_ms {
                            eprintln!("SLOW run={} ms={}", run, el);
                        }
                        record(p, &mut acc, run, 0, &sc, out);
                        if !opts.no_sweep {
                            for (i, s2) in p.sweep(&sc, run, opts.tier).into_iter().enumerate() {
                                slot.2.store(i as u64 + 1, Ordering::Relaxed);
                                slot.0.store(t0.elapsed().as_millis() as u64 + 1, Ordering::Release);
                                let t_run = std::time::Instant::now();
                                let out = exec_one(p, &s2, false);
                                slot.0.store(0, Ordering::Release);
                                slowest_ms.fetch_max(t_run.elapsed().as_millis() as u64, Ordering::Relaxed);
                                record(p, &mut acc, run, i as u64 + 1, &s2, out);
                            }
                        }
                    }
                }
                merged.lock().unwrap().push(acc);
            }).expect("cannot start a worker thread"));
        }
        // watchdog: the only wall-clock element.  A run busy for longer than
        // hang_ms is re-executed alone in a child process before anything is
        // reported, so machine load cannot raise an alarm.
        let slots = &slots;
        let done_ref = &done;
        s.spawn(move || {
            let mut excused: Vec<u64> = vec![0; nworkers];
            while !done_ref.load(Ordering::Acquire) {
                std::thread::sleep(std::time::Duration::from_millis(50));
                let now = t0.elapsed().as_millis() as u64 + 1;
                for w in 0..nworkers {
                    let since = slots[w].0.load(Ordering::Acquire);
                    if since == 0 || since == excused[w] || now < since + hang_ms {
                        continue;
                    }
                    let run = slots[w].1.load(Ordering::Relaxed);
                    let sub = slots[w].2.load(Ordering::Relaxed);
                    if slots[w].0.load(Ordering::Acquire) != since {
                        continue;
                    }
                    // regenerate the scenario (generation is a pure function of the seed)
                    let mut rng = Rng::new(run_seed(opts.seed, id, run));
                    let base = p.generate(&mut rng, run, opts.tier);
                    let sc = if sub == 0 {
                        Some(base)
                    } else {
                        p.sweep(&base, run, opts.tier).into_iter().nth(sub as usize - 1)
                    };
                    let sc = match sc {
                        Some(s) => s,
                        None => {
                            excused[w] = since;
                            continue;
                        }
                    };
                    eprintln!(
                        "pkgsim: run {} (sub {}) busy for more than {} ms; confirming alone in a child process",
                        run, sub, hang_ms
                    );
                    match exec_in_child(p, &sc, std::time::Duration::from_millis(confirm_ms(hang_ms))) {
                        ChildRes::TimedOut => {
                            report_hang(p, opts, run, sub, &sc, hang_ms);
                            crate::disk::cleanup_all();
                            std::process::exit(1);
                        }
                        ChildRes::Crashed(code) => {
                            report_crash(p, opts, run, sub, &sc, code);
                            crate::disk::cleanup_all();
                            std::process::exit(1);
                        }
                        _ => {
                            eprintln!("pkgsim: run {} finished in time when run alone; not a hang (machine load)", run);
                            excused[w] = since;
                        }
                    }
                }
            }
        });
        for h in handles {
            if h.join().is_err() {
                worker_died.store(true, Ordering::Release);
            }
        }
        done.store(true, Ordering::Release);
    });
    if worker_died.load(Ordering::Acquire) {
        // a panic outside a run (scenario generation, sweep derivation, the
        // harness itself): the batch is incomplete and nothing it says counts
        let (loc, msg) = LAST_PANIC_GLOBAL.lock().map(|g| g.clone()).unwrap_or_default();
        eprintln!("pkgsim: harness error: a worker thread died outside a run ({} {})", loc, msg);
        return BatchReport {
            new_violations: 0,
            known_matched: 0,
            harness_error: true,
        };
    }
    let accs = merged.into_inner().unwrap();
    // merge (all operations commutative, or resolved by lowest run index)
    let mut tot: Acc<P::Sc> = Acc::new();
    for a in accs {
        tot.evaluations += a.evaluations;
        tot.sweep_evaluations += a.sweep_evaluations;
        tot.steps += a.steps;
        tot.fault_free_runs += a.fault_free_runs;
        tot.nontrivial_runs += a.nontrivial_runs;
        for (k, v) in a.faults {
            *tot.faults.entry(k).or_insert(0) += v;
        }
        for (k, v) in a.probes {
            *tot.probes.entry(k).or_insert(0) += v;
        }
        tot.sigs.extend(a.sigs);
        tot.sigs_capped |= a.sigs_capped;
        tot.batch_digest ^= a.batch_digest;
        tot.lib_alloc += a.lib_alloc;
        tot.lib_input += a.lib_input;
        tot.lib_calls += a.lib_calls;
        tot.max_work_ratio_milli = tot.max_work_ratio_milli.max(a.max_work_ratio_milli);
        tot.samples.extend(a.samples);
        for (k, f) in a.found {
            match tot.found.get_mut(&k) {
                Some(g) => {
                    g.count += f.count;
                    if (f.run, f.sub) < (g.run, g.sub) {
                        let c = g.count;
                        *g = f;
                        g.count = c;
                    }
                }
                None => {
                    tot.found.insert(k, f);
                }
            }
        }
    }
    if tot.evaluations - tot.sweep_evaluations != runs {
        eprintln!(
            "pkgsim: harness error: {} runs were requested but {} were executed",
            runs,
            tot.evaluations - tot.sweep_evaluations
        );
        return BatchReport {
            new_violations: 0,
            known_matched: 0,
            harness_error: true,
        };
    }
    tot.samples.sort_by_key(|s| s.0);
    tot.samples.truncate(3);

    // classify and report
    let mut new_violations = 0usize;
    let mut known_lines: Vec<String> = Vec::new();
    let mut violation_lines: Vec<String> = Vec::new();
    let mut harness_error = false;
    let mut founds: Vec<&Found<P::Sc>> = tot.found.values().collect();
    founds.sort_by_key(|f| (f.run, f.sub));
    let mut reported = 0;
    let mut prefix_reported = false;
    let mut unreproducible_more = 0usize;
    for f in founds {
        if f.v.clause == "harness-error" || f.v.clause == "harness-model" {
            eprintln!("pkgsim: harness error in run {}: {}", f.run, f.v.detail);
            harness_error = true;
            continue;
        }
        if let Some(k) = known_match(&known, id, &f.v, &f.class) {
            known_lines.push(format!(
                "KNOWN-FINDING: property={} {} [signature={} class={} hits={}]",
                id,
                k.what,
                f.v.signature(),
                f.class,
                f.count
            ));
            continue;
        }
        new_violations += 1;
        if reported >= 6 {
            continue;
        }
        reported += 1;
        let sig = f.v.signature();
        let (mut min_sc, mut execs) = minimise(p, &f.sc, &sig, 3000);
        // replay the minimised scenario twice; it must reproduce exactly
        let check = |sc: &P::Sc| {
            let o1 = exec_one(p, sc, true);
            let o2 = exec_one(p, sc, false);
            let ok = match (&o1.outcome, &o2.outcome) {
                (Err(a), Err(b)) => a.signature() == sig && b.signature() == sig && o1.ctx.ev == o2.ctx.ev,
                _ => false,
            };
            (ok, o1)
        };
        let (mut ok, mut o1) = check(&min_sc);
        if !ok {
            // the original, un-minimised scenario
            let (ok2, o2) = check(&f.sc);
            if ok2 {
                ok = true;
                o1 = o2;
                min_sc = f.sc.clone();
                execs = 0;
            }
        }
        if !ok {
            // The violation does not reproduce when its scenario is executed on
            // its own: the code under test keeps state across calls (a static,
            // a thread-local, an address-keyed cache).  Reproduce it as the
            // first violation of a sequential, single-threaded execution of
            // the batch prefix in a fresh process, twice.
            if prefix_reported {
                unreproducible_more += 1;
                continue;
            }
            let a = exec_prefix_in_child(p, opts, f.run);
            let b = exec_prefix_in_child(p, opts, f.run);
            match (a, b) {
                (Some(x), Some(y)) if x == y => {
                    let (prun, psub, psig) = x;
                    let detail = format!(
                        "{} (does not reproduce in isolation: the code keeps state across calls; reproduced twice as the first violation of a sequential single-threaded execution of runs 0..={} in a fresh process)",
                        f.v.detail, prun
                    );
                    println!(
                        "violation: property={} signature={} class=state-across-calls hits={} first_run={} detail={}",
                        id, psig, f.count, prun, detail
                    );
                    let rf = ReplayFile {
                        property: id.to_string(),
                        seed: opts.seed,
                        run: prun,
                        sub: psub,
                        signature: psig.clone(),
                        class: "state-across-calls".to_string(),
                        detail,
                        event_digest: String::new(),
                        minimise_execs: 0,
                        trace: Vec::new(),
                        scenario: json!({ "sequential_prefix": { "seed": opts.seed, "tier": opts.tier.name(), "upto": prun } }),
                    };
                    let file = opts.root.join("replays").join(format!("{}-s{}-prefix{}.json", id, opts.seed, prun));
                    let _ = std::fs::create_dir_all(opts.root.join("replays"));
                    prefix_reported = true;
                    if std::fs::write(&file, serde_json::to_string_pretty(&rf).unwrap()).is_ok() {
                        violation_lines.push(format!("VIOLATION property={} replay={}", id, file.display()));
                    } else {
                        harness_error = true;
                    }
                }
                _ => {
                    // not reproducible at all: still a violation that was observed
                    println!(
                        "violation: property={} signature={} class={} hits={} first_run={} detail={} (observed {} times in this batch but reproducible neither in isolation nor as a sequential prefix)",
                        id, sig, f.class, f.count, f.run, f.v.detail, f.count
                    );
                    if let Some(file) = write_replay_file(p, opts, f.run, f.sub, &f.sc, &sig, &f.class, &f.v.detail, 0) {
                        violation_lines.push(format!("VIOLATION property={} replay={}", id, file.display()));
                    }
                }
            }
            continue;
        }
        let v1 = match &o1.outcome {
            Err(v) => v.clone(),
            Ok(()) => continue,
        };
        let file = opts.root.join("replays").join(format!(
            "{}-s{}-r{}{}-{:08x}.json",
            id,
            opts.seed,
            f.run,
            if f.sub > 0 {
                format!("x{}", f.sub)
            } else {
                String::new()
            },
            (hash_str(&format!("{}|{}", sig, f.class)) & 0xffff_ffff)
        ));
        let rf = ReplayFile {
            property: id.to_string(),
            seed: opts.seed,
            run: f.run,
            sub: f.sub,
            signature: sig.clone(),
            class: f.class.clone(),
            detail: v1.detail.clone(),
            event_digest: format!("{:016x}", o1.ctx.ev),
            minimise_execs: execs,
            trace: o1.ctx.trace.clone().unwrap_or_default(),
            scenario: serde_json::to_value(&min_sc).unwrap_or(Value::Null),
        };
        let _ = std::fs::create_dir_all(opts.root.join("replays"));
        match std::fs::write(&file, serde_json::to_string_pretty(&rf).unwrap()) {
            Ok(()) => {}
            Err(e) => {
                eprintln!("pkgsim: harness error: cannot write {}: {}", file.display(), e);
                harness_error = true;
                continue;
            }
        }
        println!(
            "violation: property={} signature={} class={} hits={} first_run={} detail={}",
            id, sig, f.class, f.count, f.run, v1.detail
        );
        violation_lines.push(format!(
            "VIOLATION property={} replay={}",
            id,
            file.display()
        ));
    }

    let wall = t0.elapsed().as_secs_f64();
    // evidence
    let distinct = tot.sigs.len() as u64;
    let runs_per_hour = if wall > 0.0 {
        (tot.evaluations as f64 / wall * 3600.0) as u64
    } else {
        0
    };
    let mut zero_probes: Vec<&str> = Vec::new();
    for name in p.expected_probes() {
        if tot.probes.get(name).copied().unwrap_or(0) == 0 {
            zero_probes.push(name);
        }
    }
    if opts.write_evidence {
        let mut coverage = json!({
            "evaluations": tot.evaluations,
            "distinct_nontrivial": distinct,
            "rule": p.rule(),
            "samples": tot.samples.iter().map(|s| s.1.clone()).collect::<Vec<_>>(),
            "generated_runs": runs,
            "sweep_evaluations": tot.sweep_evaluations,
            "nontrivial_runs": tot.nontrivial_runs,
            "fault_free_runs": tot.fault_free_runs,
            "logical_steps": tot.steps,
            "simulated_time": format!("{} logical steps (seam calls); the library reads no clock", tot.steps),
            "runs_per_hour": runs_per_hour,
            "seeds_per_hour": runs_per_hour,
            "faults_fired": tot.faults,
            "probes": tot.probes,
            "probes_expected_but_zero": zero_probes,
            "components": { "real": p.components_real(), "stub": p.components_stub() },
            "known_findings_matched": known_lines.len(),
            "batch_digest": format!("{:016x}", tot.batch_digest),
            "distinct_nontrivial_is_lower_bound": tot.sigs_capped,
            "workers": opts.workers,
            "exhaustive": false,
            "work_meter": {
                "what": "allocator seam: bytes allocated by each metered library call, compared with an allowance of (the bytes the call was given + 4 KiB); a call whose ratio exceeds budget_factor is the violation work-budget-exceeded",
                "metered_library_calls": tot.lib_calls,
                "input_bytes": tot.lib_input,
                "allocated_bytes": tot.lib_alloc,
                "largest_call_ratio": (tot.max_work_ratio_milli as f64) / 1000.0,
                "budget_factor": p.work_factor(),
            },
        });
        if let (Value::Object(c), Value::Object(extra)) = (&mut coverage, p.extra_evidence()) {
            for (k, v) in extra {
                c.insert(k, v);
            }
        }
        let ev = json!({
            "property_id": id,
            "tier": opts.tier.name(),
            "seed": opts.seed,
            "level": p.level(),
            "coverage": coverage,
            "assumptions": p.assumptions(),
            "wall_s": wall,
            "violations": new_violations,
        });
        let dir = opts.root.join("evidence");
        let _ = std::fs::create_dir_all(&dir);
        let path = dir.join(format!("{}.json", id));
        if let Err(e) = std::fs::write(&path, serde_json::to_string_pretty(&ev).unwrap() + "\n") {
            eprintln!("pkgsim: harness error: cannot write {}: {}", path.display(), e);
            harness_error = true;
        }
    }
    if !opts.quiet {
        println!(
            "pkgsim {} done: evaluations={} (sweeps {}) distinct_schedules={} steps={} faults_fired={} wall={:.1}s batch_digest={:016x} max_work_ratio={:.3} slowest_run_ms={}",
            id,
            tot.evaluations,
            tot.sweep_evaluations,
            distinct,
            tot.steps,
            tot.faults.values().sum::<u64>(),
            wall,
            tot.batch_digest,
            (tot.max_work_ratio_milli as f64) / 1000.0,
            slowest_ms.load(Ordering::Relaxed)
        );
        if opts.tier == Tier::Thorough && !zero_probes.is_empty() {
            println!("warning: probes never hit: {}", zero_probes.join(", "));
        }
    }
    for l in &known_lines {
        println!("{}", l);
    }
    for l in &violation_lines {
        println!("{}", l);
    }
    if unreproducible_more > 0 {
        println!(
            "note: {} further violation classes also do not reproduce in isolation (same cause: state kept across calls)",
            unreproducible_more
        );
    }
    if new_violations > reported {
        println!(
            "note: {} further distinct violation classes not minimised",
            new_violations - reported
        );
    }
    BatchReport {
        new_violations,
        known_matched: known_lines.len(),
        harness_error,
    }
}

/// Replay a file: exit status semantics are decided by the caller.
pub fn replay<P: Property>(p: &P, file: &Path) -> Result<bool, String> {
    let s = std::fs::read_to_string(file).map_err(|e| format!("{}: {}", file.display(), e))?;
    let rf: ReplayFile = serde_json::from_str(&s).map_err(|e| format!("{}: {}", file.display(), e))?;
    if rf.property != p.id() {
        return Err(format!(
            "replay file is for property {}, not {}",
            rf.property,
            p.id()
        ));
    }
    if let Some(sp) = rf.scenario.get("sequential_prefix") {
        let seed = sp.get("seed").and_then(|v| v.as_u64().or_else(|| v.as_i64().map(|x| x as u64))).unwrap_or(1);
        let tier = if sp.get("tier").and_then(|v| v.as_str()) == Some("thorough") { Tier::Thorough } else { Tier::Quick };
        let upto = sp.get("upto").and_then(|v| v.as_u64()).unwrap_or(0);
        return match prefix_child(p.id(), seed, tier, upto) {
            Some((run, sub, sig)) => {
                println!(
                    "replay: sequential execution of runs 0..={} in a fresh process: first violation at run {} (sub {}) signature={} (recorded run {} signature {})",
                    upto, run, sub, sig, rf.run, rf.signature
                );
                println!("VIOLATION property={} replay={}", p.id(), file.display());
                Ok(true)
            }
            None => {
                println!("replay: sequential execution of runs 0..={} no longer violates {}", upto, p.id());
                Ok(false)
            }
        };
    }
    let sc: P::Sc = serde_json::from_value(rf.scenario).map_err(|e| format!("scenario: {}", e))?;
    // first alone in a child process with a time limit: a scenario that hangs
    // or kills the process must not take the replay command with it
    let limit: u64 = std::env::var("PKGSIM_REPLAY_LIMIT_MS").ok().and_then(|s| s.parse().ok()).unwrap_or(20_000);
    match exec_in_child(p, &sc, std::time::Duration::from_millis(limit)) {
        ChildRes::TimedOut => {
            println!(
                "replay: the scenario does not finish within {} ms (recorded signature {})",
                limit, rf.signature
            );
            println!("VIOLATION property={} replay={}", p.id(), file.display());
            return Ok(true);
        }
        ChildRes::Crashed(code) => {
            println!("replay: the scenario killed the child process (status {})", code);
            println!("VIOLATION property={} replay={}", p.id(), file.display());
            return Ok(true);
        }
        ChildRes::SpawnFailed(e) => return Err(format!("cannot run the scenario in a child process: {}", e)),
        ChildRes::Finished(_) => {}
    }
    let out = exec_one(p, &sc, true);
    for l in out.ctx.trace.as_deref().unwrap_or(&[]) {
        println!("  {}", l);
    }
    match out.outcome {
        Err(v) => {
            let same_sig = v.signature() == rf.signature;
            let same_dig = format!("{:016x}", out.ctx.ev) == rf.event_digest;
            println!(
                "replay: violation signature={} (recorded {}) digest_match={} detail={}",
                v.signature(),
                rf.signature,
                same_dig,
                v.detail
            );
            if !same_sig {
                println!("replay: NOTE signature differs from the recorded one");
            }
            println!("VIOLATION property={} replay={}", p.id(), file.display());
            Ok(true)
        }
        Ok(()) => {
            println!("replay: scenario no longer violates {} (recorded signature {})", p.id(), rf.signature);
            Ok(false)
        }
    }
}

// ---------------------------------------------------------------------------
// Shrinking helpers
// ---------------------------------------------------------------------------

/// Candidate smaller vectors, built lazily: empty, halves, block and single
/// removals.  Only the list of removal ranges is materialised.
pub fn shrink_vec<T: Clone>(v: &[T]) -> impl Iterator<Item = Vec<T>> + '_ {
    let n = v.len();
    let mut cuts: Vec<(usize, usize)> = Vec::new(); // remove [a, b)
    if n > 0 {
        cuts.push((0, n));
    }
    if n >= 2 {
        cuts.push((n / 2, n));
        cuts.push((0, n / 2));
    }
    let mut block = n / 4;
    while block >= 2 {
        let mut i = 0;
        while i + block <= n {
            cuts.push((i, i + block));
            i += block;
        }
        block /= 2;
    }
    if n <= 64 {
        for i in 0..n {
            cuts.push((i, i + 1));
        }
    } else {
        for i in (0..8).chain(n - 8..n) {
            cuts.push((i, i + 1));
        }
    }
    cuts.into_iter().map(move |(a, b)| {
        let mut w = Vec::with_capacity(n - (b - a));
        w.extend_from_slice(&v[..a]);
        w.extend_from_slice(&v[b..]);
        w
    })
}

/// Candidate smaller numbers.
pub fn shrink_usize(n: usize) -> Vec<usize> {
    let mut out = Vec::new();
    if n == 0 {
        return out;
    }
    out.push(0);
    if n > 1 {
        out.push(n / 2);
        out.push(n - 1);
    }
    out.dedup();
    out
}

// ---------------------------------------------------------------------------
// Child-process execution: the only way to bound a call that may never return
// ---------------------------------------------------------------------------

pub enum ChildRes {
    /// finished; Some(signature) when it ended in a violation
    Finished(Option<String>),
    TimedOut,
    Crashed(i32),
    SpawnFailed(String),
}

static CHILD_SEQ: AtomicU64 = AtomicU64::new(0);

/// Child mode: load a bare scenario, execute it once, print the outcome.
pub fn child_exec_main<P: Property>(p: &P, file: &Path) -> i32 {
    let s = match std::fs::read_to_string(file) {
        Ok(s) => s,
        Err(e) => {
            eprintln!("pkgsim: child: {}: {}", file.display(), e);
            return 2;
        }
    };
    let sc: P::Sc = match serde_json::from_str(&s) {
        Ok(v) => v,
        Err(e) => {
            eprintln!("pkgsim: child: bad scenario: {}", e);
            return 2;
        }
    };
    let out = exec_one(p, &sc, false);
    match out.outcome {
        Ok(()) => println!("OUTCOME ok"),
        Err(v) => println!("OUTCOME violation {}", v.signature()),
    }
    0
}

pub fn exec_in_child<P: Property>(p: &P, sc: &P::Sc, timeout: std::time::Duration) -> ChildRes {
    let dir = crate::disk::scratch_base();
    if let Err(e) = std::fs::create_dir_all(&dir) {
        return ChildRes::SpawnFailed(format!("{}: {}", dir.display(), e));
    }
    let file = dir.join(format!("child-{}.json", CHILD_SEQ.fetch_add(1, Ordering::Relaxed)));
    if let Err(e) = std::fs::write(&file, serde_json::to_string(sc).unwrap_or_default()) {
        return ChildRes::SpawnFailed(format!("{}: {}", file.display(), e));
    }
    let exe = match std::env::current_exe() {
        Ok(e) => e,
        Err(e) => return ChildRes::SpawnFailed(e.to_string()),
    };
    let mut child = match std::process::Command::new(exe)
        .arg(p.id())
        .arg("--exec-scenario")
        .arg(&file)
        .stdout(std::process::Stdio::piped())
        .stderr(std::process::Stdio::null())
        .spawn()
    {
        Ok(c) => c,
        Err(e) => return ChildRes::SpawnFailed(e.to_string()),
    };
    let t = Instant::now();
    let res = loop {
        match child.try_wait() {
            Ok(Some(status)) => {
                let mut out = String::new();
                if let Some(mut o) = child.stdout.take() {
                    use std::io::Read;
                    let _ = o.read_to_string(&mut out);
                }
                if status.success() {
                    let sig = out
                        .lines()
                        .find_map(|l| l.strip_prefix("OUTCOME violation ").map(|s| s.to_string()));
                    break ChildRes::Finished(sig);
                }
                use std::os::unix::process::ExitStatusExt;
                break ChildRes::Crashed(status.signal().map(|s| 128 + s).or(status.code()).unwrap_or(-1));
            }
            Ok(None) => {
                if t.elapsed() > timeout {
                    let _ = child.kill();
                    let _ = child.wait();
                    break ChildRes::TimedOut;
                }
                std::thread::sleep(std::time::Duration::from_millis(5));
            }
            Err(e) => break ChildRes::SpawnFailed(e.to_string()),
        }
    };
    let _ = std::fs::remove_file(&file);
    res
}

fn write_replay_file<P: Property>(
    p: &P,
    opts: &Opts,
    run: u64,
    sub: u64,
    sc: &P::Sc,
    sig: &str,
    class: &str,
    detail: &str,
    execs: usize,
) -> Option<PathBuf> {
    let file = opts.root.join("replays").join(format!(
        "{}-s{}-r{}{}-{:08x}.json",
        p.id(),
        opts.seed,
        run,
        if sub > 0 { format!("x{}", sub) } else { String::new() },
        (hash_str(&format!("{}|{}", sig, class)) & 0xffff_ffff)
    ));
    let rf = ReplayFile {
        property: p.id().to_string(),
        seed: opts.seed,
        run,
        sub,
        signature: sig.to_string(),
        class: class.to_string(),
        detail: detail.to_string(),
        event_digest: String::new(),
        minimise_execs: execs,
        trace: Vec::new(),
        scenario: serde_json::to_value(sc).unwrap_or(Value::Null),
    };
    let _ = std::fs::create_dir_all(opts.root.join("replays"));
    match std::fs::write(&file, serde_json::to_string_pretty(&rf).unwrap()) {
        Ok(()) => Some(file),
        Err(e) => {
            eprintln!("pkgsim: harness error: cannot write {}: {}", file.display(), e);
            None
        }
    }
}

fn write_abort_evidence<P: Property>(p: &P, opts: &Opts, what: &str) {
    if !opts.write_evidence {
        return;
    }
    let ev = json!({
        "property_id": p.id(),
        "tier": opts.tier.name(),
        "seed": opts.seed,
        "level": p.level(),
        "coverage": {
            "evaluations": 1,
            "distinct_nontrivial": 0,
            "rule": p.rule(),
            "samples": [],
            "explanation": format!("batch aborted: {}", what),
        },
        "assumptions": p.assumptions(),
        "wall_s": 0.0,
        "violations": 1,
    });
    let dir = opts.root.join("evidence");
    let _ = std::fs::create_dir_all(&dir);
    let _ = std::fs::write(dir.join(format!("{}.json", p.id())), serde_json::to_string_pretty(&ev).unwrap() + "\n");
}

/// A confirmed hang: shrink it in child processes (bounded), write the replay
/// file and print the VIOLATION line.  The caller exits the process.
/// How long a run that looked stuck may take alone in a child process before it is a
/// `hang`: the same 20 s a replay allows (the slowest honest run takes about a second on
/// tmpfs; on a disk-backed scratch directory under load a scale run has been seen to
/// need more than 10 s).
fn confirm_ms(hang_ms: u64) -> u64 {
    (hang_ms * 3 + 1000).max(20_000)
}

fn report_hang<P: Property>(p: &P, opts: &Opts, run: u64, sub: u64, sc: &P::Sc, hang_ms: u64) {
    let sig = "hang";
    let class = p.classify(sc, &Violation::new("hang", String::new()));
    let known = load_known(&opts.root).unwrap_or_default();
    let v = Violation::new("hang", format!("a single run did not finish within {} ms, alone in a child process", confirm_ms(hang_ms)));
    if let Some(k) = known_match(&known, p.id(), &v, &class) {
        // cannot continue the batch (a worker thread is stuck): report and stop
        println!("KNOWN-FINDING: property={} {} [signature=hang class={}]", p.id(), k.what, class);
        println!("pkgsim {}: batch stopped early at run {} because a known hang cannot be cancelled", p.id(), run);
        write_abort_evidence(p, opts, "known hang reached");
        crate::disk::cleanup_all();
        std::process::exit(0);
    }
    // bounded shrinking: a candidate "still hangs" when it does not finish within hang_ms
    let t = Instant::now();
    let mut cur = sc.clone();
    let mut accepted: Vec<P::Sc> = Vec::new();
    let mut execs = 0usize;
    let step_ms = (hang_ms / 3).max(300);
    while t.elapsed().as_secs() < 180 {
        let mut got: Option<P::Sc> = None;
        p.shrink(&cur, &mut |c| {
            if t.elapsed().as_secs() >= 180 {
                return true;
            }
            execs += 1;
            if let ChildRes::TimedOut = exec_in_child(p, &c, std::time::Duration::from_millis(step_ms)) {
                got = Some(c);
                return true;
            }
            false
        });
        match got {
            Some(c) => {
                cur = c;
                accepted.push(cur.clone());
            }
            None => break,
        }
    }
    // the reported scenario must still exceed the full confirmation budget:
    // walk back through the accepted shrink steps until one does
    let mut chosen = sc.clone();
    for cand in accepted.iter().rev().take(10) {
        if matches!(
            exec_in_child(p, cand, std::time::Duration::from_millis(hang_ms * 3 + 1000)),
            ChildRes::TimedOut
        ) {
            chosen = cand.clone();
            break;
        }
    }
    let cur = chosen;
    println!(
        "violation: property={} signature=hang class={} first_run={} detail={}",
        p.id(),
        class,
        run,
        v.detail
    );
    if let Some(f) = write_replay_file(p, opts, run, sub, &cur, sig, &class, &v.detail, execs) {
        println!("VIOLATION property={} replay={}", p.id(), f.display());
    }
    write_abort_evidence(p, opts, "hang confirmed");
}

fn report_crash<P: Property>(p: &P, opts: &Opts, run: u64, sub: u64, sc: &P::Sc, code: i32) {
    let class = p.classify(sc, &Violation::new("abort", String::new()));
    let detail = format!("executing the scenario alone in a child process killed it (status {})", code);
    println!(
        "violation: property={} signature=abort class={} first_run={} detail={}",
        p.id(),
        class,
        run,
        detail
    );
    if let Some(f) = write_replay_file(p, opts, run, sub, sc, "abort", &class, &detail, 0) {
        println!("VIOLATION property={} replay={}", p.id(), f.display());
    }
    write_abort_evidence(p, opts, "abort confirmed");
}

// ---------------------------------------------------------------------------
// Sequential batch prefix in a fresh process (violations that depend on state
// the code under test keeps across calls)
// ---------------------------------------------------------------------------

/// Child mode: execute runs 0..=upto (with their sweeps) sequentially in this
/// thread and print the first violation.
pub fn prefix_exec_main<P: Property>(p: &P, seed: u64, tier: Tier, upto: u64) -> i32 {
    for run in 0..=upto {
        let mut rng = Rng::new(run_seed(seed, p.id(), run));
        let sc = p.generate(&mut rng, run, tier);
        let out = exec_one(p, &sc, false);
        if let Err(v) = out.outcome {
            println!("PREFIX-VIOLATION {} 0 {}", run, v.signature());
            return 0;
        }
        for (i, s2) in p.sweep(&sc, run, tier).into_iter().enumerate() {
            let out = exec_one(p, &s2, false);
            if let Err(v) = out.outcome {
                println!("PREFIX-VIOLATION {} {} {}", run, i + 1, v.signature());
                return 0;
            }
        }
    }
    println!("PREFIX-CLEAN");
    0
}

fn exec_prefix_in_child<P: Property>(p: &P, opts: &Opts, upto: u64) -> Option<(u64, u64, String)> {
    prefix_child(p.id(), opts.seed, opts.tier, upto)
}

pub fn prefix_child(id: &str, seed: u64, tier: Tier, upto: u64) -> Option<(u64, u64, String)> {
    let exe = std::env::current_exe().ok()?;
    let out = std::process::Command::new(exe)
        .arg(id)
        .arg("--exec-prefix")
        .arg(format!("{}:{}:{}", seed as i64, tier.name(), upto))
        .stderr(std::process::Stdio::null())
        .output()
        .ok()?;
    let text = String::from_utf8_lossy(&out.stdout).into_owned();
    for l in text.lines() {
        if let Some(rest) = l.strip_prefix("PREFIX-VIOLATION ") {
            let mut it = rest.splitn(3, ' ');
            let run = it.next()?.parse().ok()?;
            let sub = it.next()?.parse().ok()?;
            let sig = it.next()?.to_string();
            return Some((run, sub, sig));
        }
    }
    None
}

// ---------------------------------------------------------------------------
// Crash search: when a batch kills the process (stack exhaustion, abort), the
// wrapper re-invokes `pkgsim <ID> --find-crash`, which executes the batch in
// child processes by ranges and bisects to the single run that kills it.
// ---------------------------------------------------------------------------

/// Child mode: execute runs from..to (exclusive) sequentially, ignore ordinary
/// violations (the normal batch reports those), exit 0.
pub fn range_exec_main<P: Property>(p: &P, seed: u64, tier: Tier, from: u64, to: u64) -> i32 {
    for run in from..to {
        let mut rng = Rng::new(run_seed(seed, p.id(), run));
        let sc = p.generate(&mut rng, run, tier);
        let _ = exec_one(p, &sc, false);
        for s2 in p.sweep(&sc, run, tier) {
            let _ = exec_one(p, &s2, false);
        }
    }
    0
}

fn range_child(id: &str, seed: u64, tier: Tier, from: u64, to: u64, limit: std::time::Duration) -> Option<i32> {
    // None = finished normally; Some(code) = killed / crashed / timed out (-1)
    let exe = std::env::current_exe().ok()?;
    let mut child = std::process::Command::new(exe)
        .arg(id)
        .arg("--exec-range")
        .arg(format!("{}:{}:{}:{}", seed as i64, tier.name(), from, to))
        .stdout(std::process::Stdio::null())
        .stderr(std::process::Stdio::null())
        .spawn()
        .ok()?;
    let t = Instant::now();
    loop {
        match child.try_wait() {
            Ok(Some(st)) => {
                if st.success() {
                    return None;
                }
                use std::os::unix::process::ExitStatusExt;
                return Some(st.signal().map(|s| 128 + s).or(st.code()).unwrap_or(-2));
            }
            Ok(None) => {
                if t.elapsed() > limit {
                    let _ = child.kill();
                    let _ = child.wait();
                    return Some(-1);
                }
                std::thread::sleep(std::time::Duration::from_millis(10));
            }
            Err(_) => return Some(-2),
        }
    }
}

pub fn find_crash<P: Property>(p: &P, opts: &Opts) -> i32 {
    let runs = opts.runs_override.unwrap_or_else(|| p.runs(opts.tier));
    let id = p.id();
    println!("pkgsim {}: the batch killed the process; searching for the run that does it ({} runs, in child processes)", id, runs);
    let chunk: u64 = 2000;
    let limit = std::time::Duration::from_secs(600);
    let mut from = 0u64;
    while from < runs {
        let to = (from + chunk).min(runs);
        if let Some(code) = range_child(id, opts.seed, opts.tier, from, to, limit) {
            // bisect inside [from, to)
            let (mut lo, mut hi) = (from, to);
            while hi - lo > 1 {
                let mid = lo + (hi - lo) / 2;
                if range_child(id, opts.seed, opts.tier, lo, mid, limit).is_some() {
                    hi = mid;
                } else {
                    lo = mid;
                }
            }
            let run = lo;
            let mut rng = Rng::new(run_seed(opts.seed, id, run));
            let base = p.generate(&mut rng, run, opts.tier);
            // which of the run's scenarios (base or a sweep) does it?
            let mut cands: Vec<(u64, P::Sc)> = vec![(0, base.clone())];
            for (i, s2) in p.sweep(&base, run, opts.tier).into_iter().enumerate() {
                cands.push((i as u64 + 1, s2));
            }
            for (sub, sc) in cands {
                match exec_in_child(p, &sc, std::time::Duration::from_secs(60)) {
                    ChildRes::Crashed(c) => {
                        report_crash(p, opts, run, sub, &sc, c);
                        return 1;
                    }
                    ChildRes::TimedOut => {
                        report_hang(p, opts, run, sub, &sc, 3000);
                        return 1;
                    }
                    _ => {}
                }
            }
            eprintln!(
                "pkgsim: harness error: runs {}..{} kill a child process (status {}) but no single scenario of run {} does",
                from, to, code, run
            );
            return 2;
        }
        from = to;
    }
    eprintln!("pkgsim: harness error: the batch killed the process but no range of runs does so in a child process");
    2
}

fn debug_runs() -> bool {
    static D: std::sync::OnceLock<bool> = std::sync::OnceLock::new();
    *D.get_or_init(|| std::env::var("PKGSIM_DEBUG_RUNS").is_ok())
}
