//! C16 - pbulk-index output splits into one record per PKGNAME, fields never
//! leaking; failures are whole.  The simulator owns every `fill_buf` call.

use crate::framework::*;
use crate::rng::Rng;
use crate::seams::*;
use pkgsrc::{PkgName, ScanIndex};
use serde::{Deserialize, Serialize};
use std::io::BufReader;
use std::path::Path;

/// The 11 scalar keys other than PKGNAME (PKG_LOCATION, index 0, is typed and generated separately).
pub const SCALAR_KEYS: [&str; 11] = [
    "PKG_LOCATION",
    "PKG_SKIP_REASON",
    "PKG_FAIL_REASON",
    "NO_BIN_ON_FTP",
    "RESTRICTED",
    "CATEGORIES",
    "MAINTAINER",
    "USE_DESTDIR",
    "BOOTSTRAP_PKG",
    "USERGROUP_PHASE",
    "PBULK_WEIGHT",
];
pub const LIST_KEYS: [&str; 3] = ["ALL_DEPENDS", "SCAN_DEPENDS", "MULTI_VERSION"];

/// (text, pattern text, short pkgpath)
pub const GOOD_DEPENDS: [(&str, &str, &str); 14] = [
    // the same pattern pointing at different locations (multi-version packages)
    ("mysql-client>=5.7:../../databases/mysql57-client", "mysql-client>=5.7", "databases/mysql57-client"),
    ("mysql-client>=5.7:../../databases/mysql80-client", "mysql-client>=5.7", "databases/mysql80-client"),
    ("perl>=5.0:../../lang/perl536", "perl>=5.0", "lang/perl536"),
    ("foo-1.0:cat/foo2", "foo-1.0", "cat/foo2"),
    ("mktool-[0-9]*:../../pkgtools/mktool", "mktool-[0-9]*", "pkgtools/mktool"),
    ("perl>=5.0:../../lang/perl5", "perl>=5.0", "lang/perl5"),
    ("librsvg>=2.12<2.41:../../graphics/librsvg", "librsvg>=2.12<2.41", "graphics/librsvg"),
    ("{mysql,mariadb}-client-[0-9]*:../../databases/mysql-client", "{mysql,mariadb}-client-[0-9]*", "databases/mysql-client"),
    ("foo-1.0:../../cat/foo", "foo-1.0", "cat/foo"),
    ("py312-setuptools>=0:../../devel/py-setuptools", "py312-setuptools>=0", "devel/py-setuptools"),
    ("a-{b,c}-{d{e,f},g}-h>=1:../../x/y", "a-{b,c}-{d{e,f},g}-h>=1", "x/y"),
    ("gl?b-*:cat/pkg", "gl?b-*", "cat/pkg"),
    ("pkg<7nb2:../../misc/pkg", "pkg<7nb2", "misc/pkg"),
    ("PKGNAME=x-[0-9]*:../../a/b", "PKGNAME=x-[0-9]*", "a/b"),
];

/// Dependency number `i`: an index into the fixed pool, or (from 1000 on) a
/// synthetic one, so that one read can hold hundreds of distinct dependency
/// strings.  Returns (item text, pattern text, short pkgpath).
pub fn good_dep(i: usize) -> (String, String, String) {
    if i >= 1000 {
        let k = i - 1000;
        (
            format!("lib{}>=1.{}:../../devel/lib{}", k, k % 17, k),
            format!("lib{}>=1.{}", k, k % 17),
            format!("devel/lib{}", k),
        )
    } else {
        let d = GOOD_DEPENDS[i % GOOD_DEPENDS.len()];
        (d.0.to_string(), d.1.to_string(), d.2.to_string())
    }
}

pub const BAD_DEPENDS: [&str; 20] = [
    "foo-[0-9]*:../../cat/foo:bar>=1.2:../../cat/bar",
    "a:b:../../cat/pkg",
    "foo-1.0:x:../../cat/foo",
    "bar-[0-9]*:../../devel/bar:",
    "bar-[0-9]*:",
    ":",
    "bar-[0-9]*:../../devel/bar::",
    "foo-1.0:../../devel/..",
    "foo-1.0:../../../..",
    "foo-1.0:../../../devel",
    "foo-1.0:cat/..",
    "hello",
    "pkg>0::../../cat/pkg",
    "a:b:c",
    "pkg>0>2:../../cat/pkg",
    "foo-[0-9:../../cat/foo",
    "foo-1.0:../cat/foo",
    "foo-1.0:/cat/foo",
    "{foo-1.0:../../cat/foo",
    "foo-1.0:../../cat",
];

/// (text, short path)
pub const GOOD_LOCATIONS: [(&str, &str); 5] = [
    ("pkgtools/pkg_install", "pkgtools/pkg_install"),
    ("../../databases/php-mysql", "databases/php-mysql"),
    ("cat/pkg/", "cat/pkg"),
    ("a//b", "a/b"),
    ("../../x/y", "x/y"),
];

pub const BAD_LOCATIONS: [&str; 13] = [
    "", "pkg_install", "/cat/pkg", "../pkg", "a/b/c", "../../pkg", "../../a/b/c",
    "../../devel/..", "../../../..", "../../../devel", "../..", "devel/..", "../devel",
];

#[derive(Clone, Debug, Serialize, Deserialize)]
pub enum Item {
    /// scalar key index (into SCALAR_KEYS, 0..=10) and raw value (untrimmed edges are in `lead`/`trail`)
    Scalar { key: usize, val: String },
    /// PKG_LOCATION drawn from GOOD_LOCATIONS
    Location { good: usize },
    /// ALL_DEPENDS with items drawn from GOOD_DEPENDS
    AllDepends { items: Vec<usize>, seps: Vec<String> },
    ScanDepends { items: Vec<String>, seps: Vec<String> },
    MultiVersion { items: Vec<String>, seps: Vec<String> },
    Unknown { key: String, val: String },
    NoEq { text: String },
    Blank { ws: String },
    // content faults
    BadDepends { bad: usize, before: Vec<usize> },
    BadLocation { bad: usize },
}

#[derive(Clone, Debug, Serialize, Deserialize)]
pub struct Line {
    pub item: Item,
    pub lead: String,
    pub trail: String,
}

#[derive(Clone, Debug, Serialize, Deserialize)]
pub struct Rec {
    pub pkgname: String,
    pub name_lead: String,
    pub name_trail: String,
    pub lines: Vec<Line>,
}

#[derive(Clone, Copy, Debug, Serialize, Deserialize, PartialEq, Eq)]
pub enum Seam {
    /// fill_buf/consume implemented by the simulator: chunks end anywhere
    Direct,
    /// std BufReader of this capacity over a scripted reader
    Buffered(usize),
}

#[derive(Clone, Debug, Serialize, Deserialize)]
pub struct Sc {
    /// KEY=VALUE lines placed before the first PKGNAME (content fault "block lacks PKGNAME")
    pub orphan: Vec<Line>,
    pub recs: Vec<Rec>,
    pub final_newline: bool,
    pub seam: Seam,
    pub script: Vec<ReadStep>,
    /// a nested read: at the start of the outer reader's `at_call`-th fill_buf /
    /// read the reader itself parses another (well-formed) index with the
    /// library, on the same thread, while the outer read is in flight
    #[serde(default)]
    pub nested: Option<Box<NestedRead>>,
    /// an earlier read on the same thread whose reader panics after this many bytes of
    /// an unfinished record (the panic is caught): nothing of it may reach this read
    #[serde(default)]
    pub panicked_after: Option<usize>,
}

const STALE: &[u8] = b"PKGNAME=stale-9.9\nMAINTAINER=left@behind\nPKG_SKIP_REASON=left behind by an unwound read\nALL_DEPENDS=stale-[0-9]*:../../x/stale";

#[derive(Clone, Debug, Serialize, Deserialize)]
pub struct NestedRead {
    pub at_call: u64,
    pub recs: Vec<Rec>,
}

fn join_items(items: &[String], seps: &[String]) -> String {
    let mut s = String::new();
    for (i, it) in items.iter().enumerate() {
        if i > 0 {
            s.push_str(seps.get(i - 1).map(|x| x.as_str()).unwrap_or(" "));
        }
        s.push_str(it);
    }
    s
}

fn line_text(l: &Line) -> String {
    let body = match &l.item {
        Item::Scalar { key, val } => format!("{}={}", SCALAR_KEYS[*key], val),
        Item::Location { good } => format!("PKG_LOCATION={}", GOOD_LOCATIONS[*good].0),
        Item::AllDepends { items, seps } => {
            let v: Vec<String> = items.iter().map(|i| good_dep(*i).0).collect();
            format!("ALL_DEPENDS={}", join_items(&v, seps))
        }
        Item::ScanDepends { items, seps } => format!("SCAN_DEPENDS={}", join_items(items, seps)),
        Item::MultiVersion { items, seps } => format!("MULTI_VERSION={}", join_items(items, seps)),
        Item::Unknown { key, val } => format!("{}={}", key, val),
        Item::NoEq { text } => text.clone(),
        Item::Blank { ws } => return ws.clone(),
        Item::BadDepends { bad, before } => {
            let mut v: Vec<String> = before.iter().map(|i| good_dep(*i).0).collect();
            v.push(BAD_DEPENDS[*bad].to_string());
            format!("ALL_DEPENDS={}", v.join(" "))
        }
        Item::BadLocation { bad } => format!("PKG_LOCATION={}", BAD_LOCATIONS[*bad]),
    };
    format!("{}{}{}", l.lead, body, l.trail)
}

pub struct Rendered {
    pub bytes: Vec<u8>,
    /// byte offset where record i starts (its PKGNAME line)
    pub rec_starts: Vec<usize>,
}

pub fn render(sc: &Sc) -> Rendered {
    let mut lines: Vec<String> = Vec::new();
    let mut rec_line_idx = Vec::new();
    for l in &sc.orphan {
        lines.push(line_text(l));
    }
    for r in &sc.recs {
        rec_line_idx.push(lines.len());
        lines.push(format!("{}PKGNAME={}{}", r.name_lead, r.pkgname, r.name_trail));
        for l in &r.lines {
            lines.push(line_text(l));
        }
    }
    let mut bytes = Vec::new();
    let mut starts = Vec::new();
    for (i, l) in lines.iter().enumerate() {
        starts.push(bytes.len());
        bytes.extend_from_slice(l.as_bytes());
        if i + 1 < lines.len() || sc.final_newline {
            bytes.push(b'\n');
        }
    }
    Rendered {
        bytes,
        rec_starts: rec_line_idx.iter().map(|i| starts[*i]).collect(),
    }
}

/// What the model says record `r` must look like.
#[derive(Debug, Default)]
struct Expect {
    pkgname: String,
    scalars: [Option<String>; 11],
    location: Option<String>,
    all_depends: Vec<(String, String)>,
    scan_depends: Vec<String>,
    multi_version: Vec<String>,
}

fn expect_of(r: &Rec) -> Expect {
    let mut e = Expect {
        pkgname: r.pkgname.clone(),
        ..Default::default()
    };
    for l in &r.lines {
        match &l.item {
            // blanks right after '=' belong to the value's surroundings: "the trimmed value"
            Item::Scalar { key, val } => e.scalars[*key] = Some(val.trim_matches([' ', '\t']).to_string()),
            Item::Location { good } => e.location = Some(GOOD_LOCATIONS[*good].1.to_string()),
            Item::AllDepends { items, .. } => {
                e.all_depends = items
                    .iter()
                    .map(|i| { let d = good_dep(*i); (d.1, d.2) })
                    .collect()
            }
            Item::ScanDepends { items, .. } => e.scan_depends = items.clone(),
            Item::MultiVersion { items, .. } => e.multi_version = items.clone(),
            _ => {}
        }
    }
    e
}

fn compare(got: &ScanIndex, want: &Expect) -> Result<(), String> {
    if got.pkgname != PkgName::new(&want.pkgname) || got.pkgname.pkgname() != want.pkgname {
        return Err(format!("pkgname {:?}, expected {:?}", got.pkgname.pkgname(), want.pkgname));
    }
    let scal: [(&str, &Option<String>); 10] = [
        ("PKG_SKIP_REASON", &got.pkg_skip_reason),
        ("PKG_FAIL_REASON", &got.pkg_fail_reason),
        ("NO_BIN_ON_FTP", &got.no_bin_on_ftp),
        ("RESTRICTED", &got.restricted),
        ("CATEGORIES", &got.categories),
        ("MAINTAINER", &got.maintainer),
        ("USE_DESTDIR", &got.use_destdir),
        ("BOOTSTRAP_PKG", &got.bootstrap_pkg),
        ("USERGROUP_PHASE", &got.usergroup_phase),
        ("PBULK_WEIGHT", &got.pbulk_weight),
    ];
    for (i, (name, g)) in scal.iter().enumerate() {
        let w = &want.scalars[i + 1];
        if *g != w {
            return Err(format!("{} is {:?}, expected {:?}", name, g, w));
        }
    }
    let gl = got.pkg_location.as_ref().map(|p| p.as_path().to_path_buf());
    let wl = want.location.as_ref().map(|s| Path::new(s).to_path_buf());
    if gl != wl {
        return Err(format!("PKG_LOCATION is {:?}, expected {:?}", gl, wl));
    }
    if got.all_depends.len() != want.all_depends.len() {
        return Err(format!(
            "ALL_DEPENDS has {} items, expected {}",
            got.all_depends.len(),
            want.all_depends.len()
        ));
    }
    for (g, w) in got.all_depends.iter().zip(want.all_depends.iter()) {
        if g.pattern().pattern() != w.0 || g.pkgpath().as_path() != Path::new(&w.1) {
            return Err(format!(
                "ALL_DEPENDS item is {:?}:{:?}, expected {:?}:{:?}",
                g.pattern().pattern(),
                g.pkgpath().as_path(),
                w.0,
                w.1
            ));
        }
    }
    let gs: Vec<String> = got.scan_depends.iter().map(|p| p.to_string_lossy().into_owned()).collect();
    if gs != want.scan_depends {
        return Err(format!("SCAN_DEPENDS is {:?}, expected {:?}", gs, want.scan_depends));
    }
    if got.multi_version != want.multi_version {
        return Err(format!(
            "MULTI_VERSION is {:?}, expected {:?}",
            got.multi_version, want.multi_version
        ));
    }
    if !got.depends.is_empty() {
        return Err("depends is not empty".to_string());
    }
    Ok(())
}

// --------------------------------------------------------------------------
// generators
// --------------------------------------------------------------------------

const EDGE_OK: &[u8] = b"abcdefghijklmnopqrstuvwxyzABCXYZ0123456789=.-_/:+,()[]{}<>*?$#@!~'\"\\";
const NONWS_MULTI: [&str; 6] = ["\u{e9}", "\u{3b1}", "\u{20ac}", "\u{65e5}", "\u{1f600}", "\u{feff}"];
const ANY_MULTI: [&str; 9] = [
    "\u{e9}", "\u{3b1}", "\u{20ac}", "\u{65e5}", "\u{1f600}", "\u{85}", "\u{a0}", "\u{2028}", "\u{3000}",
];

fn gen_ws(rng: &mut Rng) -> String {
    match rng.below(8) {
        0 => " ".into(),
        1 => "\t".into(),
        2 => "  \t ".into(),
        _ => String::new(),
    }
}

fn gen_sep(rng: &mut Rng) -> String {
    match rng.below(6) {
        0 => "\t".into(),
        1 => "  ".into(),
        2 => " \t ".into(),
        _ => " ".into(),
    }
}

/// A token: no white space of any kind.
fn gen_token(rng: &mut Rng) -> String {
    let n = rng.urange(1, 12);
    let mut s = String::new();
    for _ in 0..n {
        if rng.chance(1, 10) {
            let m: &&str = rng.pick(&NONWS_MULTI[..]);
            s.push_str(m);
        } else {
            s.push(*rng.pick(EDGE_OK) as char);
        }
    }
    s
}

/// A scalar value: arbitrary interior (including '=', blanks, Unicode white
/// space), edges that are not white space; may be empty.
fn gen_value(rng: &mut Rng) -> String {
    if rng.chance(1, 8) {
        return String::new();
    }
    if rng.chance(1, 12) {
        return rng
            .pick(&["PKGNAME=foo-1.0", "x PKGNAME=y", "a=b=c", "=", "PKGNAME=", "ALL_DEPENDS=hello"])
            .to_string();
    }
    let n = rng.urange(1, 30);
    let mut s = String::new();
    for i in 0..n {
        let edge = i == 0 || i + 1 == n;
        if edge {
            if rng.chance(1, 10) {
                let m: &&str = rng.pick(&NONWS_MULTI[..]);
                s.push_str(m);
            } else {
                s.push(*rng.pick(EDGE_OK) as char);
            }
        } else {
            match rng.below(12) {
                0 => s.push(' '),
                1 => s.push('\t'),
                2 => {
                    let m: &&str = rng.pick(&ANY_MULTI[..]);
                    s.push_str(m);
                }
                _ => s.push(*rng.pick(EDGE_OK) as char),
            }
        }
    }
    s
}

fn gen_pkgname(rng: &mut Rng) -> String {
    match rng.below(10) {
        0 => String::new(),
        1 => "foo".into(),
        2 => "php56-mysql-5.6.40nb1".into(),
        3 => "-1.0".into(),
        5 => rng.pick_str(&["dists-20240101.tgz", "foo-1.0.tgz", "foo-1.0.tar.gz", "x.tgz-1", "tgz-1.0"]).into(),
        4 => "PKGNAME=x-1.0".into(),
        _ => format!("{}-{}.{}", gen_token(rng), rng.below(30), rng.below(100)),
    }
}

fn gen_line(rng: &mut Rng, used_lists: &mut [bool; 3]) -> Line {
    let lead = gen_ws(rng);
    let trail = gen_ws(rng);
    let item = match rng.below(16) {
        0..=6 => Item::Scalar {
            key: rng.urange(1, 10),
            // now and then ASCII blanks between '=' and the value
            val: if rng.chance(1, 6) {
                format!("{}{}", rng.pick_str(&[" ", "\t", "  ", " \t "]), gen_value(rng))
            } else {
                gen_value(rng)
            },
        },
        7 => Item::Location {
            good: rng.usize_below(GOOD_LOCATIONS.len()),
        },
        8 | 9 if !used_lists[0] => {
            used_lists[0] = true;
            let n = rng.urange(0, 6);
            Item::AllDepends {
                items: (0..n).map(|_| rng.usize_below(GOOD_DEPENDS.len())).collect(),
                seps: (0..n).map(|_| gen_sep(rng)).collect(),
            }
        }
        10 if !used_lists[1] => {
            used_lists[1] = true;
            let n = rng.urange(0, 6);
            Item::ScanDepends {
                items: (0..n).map(|_| format!("/usr/pkgsrc/{}/{}.mk", gen_token(rng), gen_token(rng))).collect(),
                seps: (0..n).map(|_| gen_sep(rng)).collect(),
            }
        }
        11 if !used_lists[2] => {
            used_lists[2] = true;
            let n = rng.urange(0, 4);
            Item::MultiVersion {
                items: (0..n).map(|_| format!("{}={}", gen_token(rng), gen_token(rng))).collect(),
                seps: (0..n).map(|_| gen_sep(rng)).collect(),
            }
        }
        12 if rng.chance(1, 3) => Item::Unknown {
            // an unknown key that collides with a known one under a common 32-bit string hash
            key: rng.pick(&crate::collisions::COLLISIONS).2.to_string(),
            val: gen_value(rng),
        },
        12 => Item::Unknown {
            key: rng
                .pick(&[
                    "DEPENDS", "PKGPATH", "pkgname", "PKGNAMES", "XPKGNAME", "MAINTAINERS", "FOO_BAR", "PKG_LOCATIONS",
                    // several words, one of them a known key; a known key with something attached
                    // (not a known key followed only by blanks: whether "PKGNAME\u{a0}" is PKGNAME is
                    // not fixed by the property - the pinned code trims the key)
                    "MAINTAINER of this package", "PKGNAME and version", "ALL_DEPENDS extra", "the PKGNAME", "x MAINTAINER",
                    "PKG_LOCATION\tx", "PKGNAME.", "PKGNAME:", "PKGNAME+", "PKGNAME[0]", "MAINTAINER?", "#MAINTAINER", "# PKGNAME",
                    "PKG_SKIP_REASON PKG_FAIL_REASON", "ALL_DEPENDS,", "-PKGNAME", "MAINTAINER\u{2003}x", "PKG LOCATION", "PKG-LOCATION",
                    "", "=", "\u{e9}", "Pkgname", "MAINTAINEr",
                ])
                .to_string(),
            val: gen_value(rng),
        },
        13 => Item::NoEq {
            text: rng.pick(&["garbage", "PKGNAME", "PKGNAME foo", "ALL_DEPENDS", "#comment", "x y z"]).to_string(),
        },
        14 => Item::Blank { ws: gen_ws(rng) },
        _ => Item::Scalar {
            key: rng.urange(1, 10),
            val: gen_value(rng),
        },
    };
    // blank lines carry no lead/trail of their own
    match item {
        Item::Blank { .. } => Line {
            item,
            lead: String::new(),
            trail: String::new(),
        },
        _ => Line { item, lead, trail },
    }
}

fn gen_rec(rng: &mut Rng, prev: Option<&Rec>) -> Rec {
    let n = rng.urange(0, 8);
    let mut used = [false; 3];
    let mut lines: Vec<Line> = (0..n).map(|_| gen_line(rng, &mut used)).collect();
    // deliberately place the same key as in the previous record, with a
    // different value, so that a boundary off-by-one is visible
    if let Some(p) = prev {
        if rng.chance(1, 2) {
            for l in &p.lines {
                if let Item::Scalar { key, val } = &l.item {
                    let at = rng.urange(0, lines.len());
                    lines.insert(
                        at,
                        Line {
                            item: Item::Scalar {
                                key: *key,
                                val: format!("{}x", val),
                            },
                            lead: String::new(),
                            trail: String::new(),
                        },
                    );
                    break;
                }
            }
        }
    }
    if rng.chance(1, 150) {
        // a line far longer than 64 KiB: real SCAN_DEPENDS lines list thousands of files
        lines.retain(|l| !matches!(l.item, Item::ScanDepends { .. }));
        let at = rng.urange(0, lines.len());
        let item = if rng.chance(2, 3) {
            let n = rng.urange(2500, 4000);
            Item::ScanDepends {
                items: (0..n).map(|i| format!("/usr/pkgsrc/mk/file{:05}.mk", i)).collect(),
                seps: (0..n).map(|_| " ".to_string()).collect(),
            }
        } else {
            let n = rng.urange(66_000, 80_000);
            Item::Scalar {
                key: rng.urange(1, 10),
                val: "v".repeat(n),
            }
        };
        lines.insert(
            at,
            Line {
                item,
                lead: String::new(),
                trail: String::new(),
            },
        );
    }
    Rec {
        pkgname: gen_pkgname(rng),
        name_lead: gen_ws(rng),
        name_trail: gen_ws(rng),
        lines,
    }
}

fn multibyte_interiors(bytes: &[u8]) -> Vec<usize> {
    (0..bytes.len()).filter(|&i| (0x80..0xc0).contains(&bytes[i])).collect()
}

fn gen_script(rng: &mut Rng, sc: &Sc) -> Vec<ReadStep> {
    let rend = render(sc);
    let bytes = &rend.bytes;
    let len = bytes.len();
    let mut script: Vec<ReadStep> = Vec::new();
    let mut cuts: Vec<usize> = Vec::new();
    match rng.below(7) {
        0 => {}
        1 => {
            for _ in 0..len.min(4096) {
                script.push(ReadStep::Give(1));
            }
        }
        2 => {
            let m = *rng.pick(&[2usize, 5, 17, 80, 400]);
            let mut left = len;
            while left > 0 {
                let n = rng.urange(1, m);
                script.push(ReadStep::Give(n));
                left = left.saturating_sub(n);
            }
        }
        3 => {
            // whole lines
            for (i, &c) in bytes.iter().enumerate() {
                if c == b'\n' {
                    cuts.push(i + 1);
                }
            }
        }
        4 => {
            // inside multi-byte characters
            for p in multibyte_interiors(bytes) {
                if rng.chance(1, 2) {
                    cuts.push(p);
                }
            }
        }
        5 => {
            // between records and right after "PKGNAME="
            for &s in &rend.rec_starts {
                if rng.chance(1, 2) {
                    cuts.push(s);
                }
                if let Some(p) = bytes[s..].windows(8).position(|w| w == b"PKGNAME=") {
                    if rng.chance(1, 2) {
                        cuts.push(s + p + 8);
                    }
                    if rng.chance(1, 4) {
                        cuts.push(s + p + 3);
                    }
                }
            }
        }
        _ => {
            // just before / after newlines
            for (i, &c) in bytes.iter().enumerate() {
                if c == b'\n' && rng.chance(1, 3) {
                    cuts.push(i);
                }
            }
        }
    }
    if !cuts.is_empty() {
        cuts.retain(|&c| c > 0 && c < len);
        cuts.sort_unstable();
        cuts.dedup();
        let mut last = 0;
        for c in cuts {
            script.push(ReadStep::Give(c - last));
            last = c;
        }
    }
    if rng.chance(1, 3) {
        let k = rng.urange(1, 3);
        for _ in 0..k {
            let at = match rng.below(4) {
                0 => 0,
                1 => script.len(),
                _ => rng.urange(0, script.len()),
            };
            script.insert(at, ReadStep::Intr);
            if rng.chance(1, 4) {
                script.insert(at, ReadStep::Intr);
            }
        }
    }
    if rng.chance(1, 5) {
        let at = match rng.below(4) {
            0 => 0,
            1 => script.len(),
            _ => rng.urange(0, script.len()),
        };
        let k = *rng.pick(&ErrKind::ALL);
        script.insert(at, if rng.chance(1, 3) { ReadStep::FailForever(k) } else { ReadStep::Fail(k) });
    } else if rng.chance(1, 8) {
        let at = rng.urange(0, script.len());
        script.insert(at, ReadStep::Eof);
    }
    script
}

fn has_content_fault(sc: &Sc) -> bool {
    !sc.orphan.is_empty()
        || sc.recs.iter().any(|r| {
            r.lines
                .iter()
                .any(|l| matches!(l.item, Item::BadDepends { .. } | Item::BadLocation { .. }))
        })
}

pub struct C16;

impl Property for C16 {
    type Sc = Sc;

    fn id(&self) -> &'static str {
        "C16"
    }
    fn level(&self) -> &'static str {
        "fault_enumeration"
    }
    fn runs(&self, tier: Tier) -> u64 {
        match tier {
            Tier::Quick => 30_000,
            Tier::Thorough => 15_000_000,
        }
    }

    fn generate(&self, rng: &mut Rng, _run: u64, _tier: Tier) -> Sc {
        if rng.chance(1, 300) {
            // scale: counts beyond 255 / 256 / 4096 / 65536 - many records, one list
            // with very many items, one key repeated very many times
            let n = *rng.pick(&[257usize, 300, 1100, 4100, 4100, 66_000]);
            let shape = rng.below(3);
            let mut recs: Vec<Rec> = Vec::new();
            let line = |item: Item| Line {
                item,
                lead: String::new(),
                trail: String::new(),
            };
            match shape {
                0 => {
                    for i in 0..n {
                        let mut lines = vec![line(Item::Scalar {
                            key: 1 + i % 10,
                            val: format!("v{}", i),
                        })];
                        if i % 2 == 0 {
                            // more than 256 distinct dependency strings in one read, each
                            // coming back again after the others have passed
                            lines.push(line(Item::AllDepends {
                                items: vec![1000 + (i / 2) % 300, i % GOOD_DEPENDS.len()],
                                seps: vec![" ".to_string()],
                            }));
                        }
                        recs.push(Rec {
                            pkgname: format!("p{}-1.{}", i, i % 97),
                            name_lead: String::new(),
                            name_trail: String::new(),
                            lines,
                        });
                    }
                }
                1 => {
                    let k = n.min(70_000);
                    recs.push(Rec {
                        pkgname: "many-items-1.0".into(),
                        name_lead: String::new(),
                        name_trail: String::new(),
                        lines: vec![
                            line(Item::ScanDepends {
                                items: (0..k).map(|i| format!("/usr/pkgsrc/c/p{}.mk", i)).collect(),
                                seps: (0..k).map(|_| " ".to_string()).collect(),
                            }),
                            line(Item::AllDepends {
                                items: (0..k.min(5000)).map(|i| i % GOOD_DEPENDS.len()).collect(),
                                seps: (0..k.min(5000)).map(|_| " ".to_string()).collect(),
                            }),
                        ],
                    });
                }
                _ => {
                    let k = n.min(70_000);
                    recs.push(Rec {
                        pkgname: "many-repeats-1.0".into(),
                        name_lead: String::new(),
                        name_trail: String::new(),
                        lines: (0..k)
                            .map(|i| {
                                line(Item::Scalar {
                                    key: 1 + i % 3,
                                    val: format!("r{}", i),
                                })
                            })
                            .collect(),
                    });
                    recs.push(Rec {
                        pkgname: "after-1.0".into(),
                        name_lead: String::new(),
                        name_trail: String::new(),
                        lines: vec![],
                    });
                }
            }
            return Sc {
                orphan: vec![],
                recs,
                final_newline: true,
                seam: if rng.chance(1, 2) { Seam::Direct } else { Seam::Buffered(8192) },
                script: Vec::new(),
                nested: None,
                panicked_after: None,
            };
        }
        let n = match rng.below(10) {
            0 => 0,
            1..=2 => 1,
            _ => rng.urange(2, 8),
        };
        let mut recs: Vec<Rec> = Vec::new();
        for i in 0..n {
            let prev = if i > 0 { recs.last() } else { None };
            let r = gen_rec(rng, prev);
            recs.push(r);
        }
        let mut orphan = Vec::new();
        // at most one content fault per run
        if rng.chance(1, 4) && n > 0 {
            match rng.below(3) {
                0 => {
                    let k = rng.urange(1, 3);
                    for _ in 0..k {
                        orphan.push(Line {
                            item: Item::Scalar {
                                key: rng.urange(1, 10),
                                val: gen_value(rng),
                            },
                            lead: gen_ws(rng),
                            trail: gen_ws(rng),
                        });
                    }
                }
                1 => {
                    let ri = rng.usize_below(n);
                    // no other ALL_DEPENDS line in that record
                    recs[ri].lines.retain(|l| !matches!(l.item, Item::AllDepends { .. }));
                    let nb = rng.urange(0, 3);
                    let at = rng.urange(0, recs[ri].lines.len());
                    recs[ri].lines.insert(
                        at,
                        Line {
                            item: Item::BadDepends {
                                bad: rng.usize_below(BAD_DEPENDS.len()),
                                before: (0..nb).map(|_| rng.usize_below(GOOD_DEPENDS.len())).collect(),
                            },
                            lead: gen_ws(rng),
                            trail: gen_ws(rng),
                        },
                    );
                }
                _ => {
                    let ri = rng.usize_below(n);
                    // it must be the last PKG_LOCATION of its record to be the effective one
                    recs[ri].lines.retain(|l| !matches!(l.item, Item::Location { .. }));
                    let at = rng.urange(0, recs[ri].lines.len());
                    recs[ri].lines.insert(
                        at,
                        Line {
                            item: Item::BadLocation {
                                bad: rng.usize_below(BAD_LOCATIONS.len()),
                            },
                            lead: String::new(),
                            trail: gen_ws(rng),
                        },
                    );
                }
            }
        }
        let mut sc = Sc {
            orphan,
            recs,
            final_newline: rng.chance(3, 4),
            seam: if rng.chance(2, 3) {
                Seam::Direct
            } else {
                Seam::Buffered(*rng.pick(&[1usize, 2, 3, 16, 100, 1024, 8192]))
            },
            script: Vec::new(),
            nested: None,
            panicked_after: None,
        };
        sc.script = gen_script(rng, &sc);
        if rng.chance(1, 8) {
            sc.panicked_after = Some(rng.urange(1, STALE.len()));
        }
        if rng.chance(1, 6) {
            // a nested read of a small well-formed index from inside the outer reader
            let k = rng.urange(1, 3);
            let mut recs: Vec<Rec> = Vec::new();
            for _ in 0..k {
                let mut r = gen_rec(rng, recs.last());
                // well-formed only: no content faults in the nested document
                r.lines.retain(|l| !matches!(l.item, Item::BadDepends { .. } | Item::BadLocation { .. }));
                recs.push(r);
            }
            sc.nested = Some(Box::new(NestedRead {
                at_call: rng.urange(1, 6) as u64,
                recs,
            }));
        }
        sc
    }

    fn execute(&self, sc: &Sc, ctx: &mut Ctx) -> Outcome {
        if let Some(give) = sc.panicked_after {
            ctx.fault("reader_panicked_in_earlier_call");
            call_with_panicking_reader(STALE.to_vec(), give.min(STALE.len()), |r| {
                let _ = ScanIndex::from_reader(BufReader::new(r));
            });
        }
        let rend = render(sc);
        let bytes = rend.bytes.clone();
        let inner_result: std::rc::Rc<std::cell::RefCell<Option<std::io::Result<Vec<ScanIndex>>>>> = Default::default();
        let hook = |slot: std::rc::Rc<std::cell::RefCell<Option<std::io::Result<Vec<ScanIndex>>>>>, recs: &Vec<Rec>| -> Box<dyn FnMut()> {
            let inner = render(&Sc {
                orphan: vec![],
                recs: recs.clone(),
                final_newline: true,
                seam: Seam::Direct,
                script: vec![],
                nested: None,
                panicked_after: None,
            })
            .bytes;
            Box::new(move || {
                *slot.borrow_mut() = Some(ScanIndex::from_reader(&inner[..]));
            })
        };
        let mut the_hook = sc.nested.as_ref().map(|n| (n.at_call, hook(inner_result.clone(), &n.recs)));
        let bytes_in = bytes.clone();
        let work;
        let (res, log) = match sc.seam {
            Seam::Direct => {
                let mut r = SimBufReader::new(bytes_in, sc.script.clone());
                if let Some((at, h)) = the_hook.take() {
                    r = r.with_hook(at, h);
                }
                let log = r.log();
                work = Work::start();
                (ScanIndex::from_reader(r), log)
            }
            Seam::Buffered(c) => {
                let mut r = SimReader::new(bytes_in, sc.script.clone());
                if let Some((at, h)) = the_hook.take() {
                    r = r.with_hook(at, h);
                }
                let log = r.log();
                work = Work::start();
                (ScanIndex::from_reader(BufReader::with_capacity(c, r)), log)
            }
        };
        work.stop(ctx, bytes.len());
        if let Some(n) = &sc.nested {
            if let Some(got) = inner_result.borrow().as_ref() {
                ctx.probe("nested-read-ran");
                ctx.fault("nested_read_in_reader");
                match got {
                    Err(e) => fail!("nested-read-wrong", "a well-formed index read from inside the outer read's reader failed: {}", e),
                    Ok(list) => {
                        ensure!(
                            list.len() == n.recs.len(),
                            "nested-read-wrong",
                            "a nested read of {} records returned {}",
                            n.recs.len(),
                            list.len()
                        );
                        for (i, (g, r)) in list.iter().zip(n.recs.iter()).enumerate() {
                            if let Err(m) = compare(g, &expect_of(r)) {
                                fail!("nested-read-wrong", "nested read, record {}: {}", i, m);
                            }
                        }
                    }
                }
            }
        }
        let log = log.borrow();
        log.absorb(ctx, "fill_buf");
        // probes
        if bytes.is_empty() {
            ctx.probe("empty-input");
        }
        if bytes.split(|&c| c == b'\n').any(|l| l.len() > 65_536) {
            ctx.probe("line-longer-than-64KiB");
        }
        {
            let mut pos = 0usize;
            for (k, n) in &log.events {
                if *k == 0 && *n > 0 {
                    pos += *n as usize;
                    if pos < bytes.len() {
                        ctx.nontrivial = true;
                        if (0x80..0xc0).contains(&bytes[pos]) {
                            ctx.probe("chunk-ends-inside-multibyte");
                        }
                        if pos >= 8 && &bytes[pos - 8..pos] == b"PKGNAME=" {
                            ctx.probe("chunk-ends-after-PKGNAME=");
                        }
                    }
                }
            }
        }
        for w in sc.recs.windows(2) {
            let keys = |r: &Rec| -> Vec<usize> {
                r.lines
                    .iter()
                    .filter_map(|l| if let Item::Scalar { key, .. } = &l.item { Some(*key) } else { None })
                    .collect()
            };
            let a = keys(&w[0]);
            if keys(&w[1]).iter().any(|k| a.contains(k)) {
                ctx.probe("same-key-in-adjacent-records");
                break;
            }
        }
        for r in &sc.recs {
            let mut seen = [0u8; 12];
            for l in &r.lines {
                if let Item::Scalar { key, val } = &l.item {
                    seen[*key] = seen[*key].saturating_add(1);
                    if seen[*key] == 2 {
                        ctx.probe("repeated-key");
                    }
                    if val.contains('=') {
                        ctx.probe("value-with-equals");
                    }
                }
            }
        }
        let content_fault = has_content_fault(sc);
        if !sc.orphan.is_empty() {
            ctx.probe("fault-block-without-PKGNAME");
        }
        for r in &sc.recs {
            for l in &r.lines {
                match l.item {
                    Item::BadDepends { .. } => ctx.probe("fault-bad-dependency"),
                    Item::BadLocation { .. } => ctx.probe("fault-bad-location"),
                    _ => {}
                }
            }
        }
        let expects: Vec<Expect> = sc.recs.iter().map(expect_of).collect();

        // --- hard I/O error reached: the read must fail as a whole
        if let Some((call, kind)) = log.hard_errors.first() {
            ctx.probe(if *call == 1 {
                "error-at-first-call"
            } else if log.delivered >= bytes.len() {
                "error-at-last-call"
            } else {
                "error-mid-stream"
            });
            match &res {
                Ok(list) => fail!(
                    "io-error-swallowed",
                    "reader failed with {:?} at call {} but from_reader returned Ok with {} records (model has {})",
                    kind,
                    call,
                    list.len(),
                    sc.recs.len()
                ),
                Err(e) => {
                    let ok_kind = e.kind() == kind.to_io()
                        || (content_fault && e.kind() == std::io::ErrorKind::InvalidData);
                    ensure!(
                        ok_kind,
                        "io-error-kind-changed",
                        "reader failed with {:?} but the error returned has kind {:?}",
                        kind,
                        e.kind()
                    );
                }
            }
            return Ok(());
        }

        // --- early EOF: producer killed at byte k
        if let Some(k) = log.early_eof_at {
            if content_fault {
                return Ok(()); // both at once: only "no panic, bounded calls"
            }
            // records wholly delivered before the cut must be right
            let r = rend.rec_starts.iter().filter(|&&s| s < k).count(); // records started
            let whole = r.saturating_sub(1); // the last started record contains the cut
            match &res {
                Err(e) => {
                    ensure!(
                        e.kind() == std::io::ErrorKind::InvalidData,
                        "spurious-error",
                        "early EOF at byte {} gave error kind {:?}",
                        k,
                        e.kind()
                    );
                }
                Ok(list) => {
                    ensure!(
                        list.len() == r || (list.len() == whole && r > 0),
                        "record-count",
                        "early EOF at byte {}: {} records started before the cut but {} returned",
                        k,
                        r,
                        list.len()
                    );
                    for i in 0..whole.min(list.len()) {
                        if let Err(m) = compare(&list[i], &expects[i]) {
                            fail!("field-mismatch", "record {} (complete before the early EOF): {}", i, m);
                        }
                    }
                }
            }
            return Ok(());
        }

        // --- no I/O fault reached (EINTR and short reads are transparent)
        if content_fault {
            match &res {
                Ok(list) => fail!(
                    "content-fault-accepted",
                    "input has {} but from_reader returned Ok with {} records",
                    if !sc.orphan.is_empty() {
                        "a block without PKGNAME"
                    } else {
                        "an invalid ALL_DEPENDS item or PKG_LOCATION"
                    },
                    list.len()
                ),
                Err(e) => ensure!(
                    e.kind() == std::io::ErrorKind::InvalidData,
                    "wrong-error-kind",
                    "content fault reported as {:?}",
                    e.kind()
                ),
            }
            return Ok(());
        }
        match &res {
            Err(e) => {
                if e.kind() == std::io::ErrorKind::Interrupted {
                    fail!("eintr-not-transparent", "Interrupted surfaced: {}", e);
                }
                fail!("spurious-error", "well-formed input, no fault reached, but got {:?}: {}", e.kind(), e)
            }
            Ok(list) => {
                ensure!(
                    list.len() == expects.len(),
                    "record-count",
                    "input has {} PKGNAME= lines but {} records were returned",
                    expects.len(),
                    list.len()
                );
                for (i, (g, w)) in list.iter().zip(expects.iter()).enumerate() {
                    if let Err(m) = compare(g, w) {
                        fail!("field-mismatch", "record {}: {}", i, m);
                    }
                }
            }
        }
        Ok(())
    }

    fn shrink(&self, sc: &Sc, emit: &mut dyn FnMut(Sc) -> bool) {
        macro_rules! push {
            ($e:expr) => {
                if emit($e) {
                    return;
                }
            };
        }
        for r in shrink_vec(&sc.recs) {
            push!(Sc { recs: r, ..sc.clone() });
        }
        for s in shrink_vec(&sc.script) {
            push!(Sc { script: s, ..sc.clone() });
        }
        if !sc.orphan.is_empty() {
            for o in shrink_vec(&sc.orphan) {
                push!(Sc { orphan: o, ..sc.clone() });
            }
        }
        if sc.seam != Seam::Direct {
            push!(Sc { seam: Seam::Direct, ..sc.clone() });
        }
        for (ri, r) in sc.recs.iter().enumerate() {
            for l in shrink_vec(&r.lines) {
                let mut s = sc.clone();
                s.recs[ri].lines = l;
                push!(s);
            }
            if !r.name_lead.is_empty() || !r.name_trail.is_empty() {
                let mut s = sc.clone();
                s.recs[ri].name_lead.clear();
                s.recs[ri].name_trail.clear();
                push!(s);
            }
            if r.pkgname != "p-1" {
                let mut s = sc.clone();
                s.recs[ri].pkgname = "p-1".into();
                push!(s);
            }
            for (li, l) in r.lines.iter().enumerate() {
                if !l.lead.is_empty() || !l.trail.is_empty() {
                    let mut s = sc.clone();
                    s.recs[ri].lines[li].lead.clear();
                    s.recs[ri].lines[li].trail.clear();
                    push!(s);
                }
                if let Item::Scalar { key, val } = &l.item {
                    if val.len() > 1 {
                        let mut s = sc.clone();
                        s.recs[ri].lines[li].item = Item::Scalar {
                            key: *key,
                            val: val.chars().take(1).collect(),
                        };
                        push!(s);
                    }
                }
            }
        }
    }

    fn sweep(&self, sc: &Sc, run: u64, tier: Tier) -> Vec<Sc> {
        let every = if tier == Tier::Quick { 16 } else { 64 };
        if run % every != 0 {
            return Vec::new();
        }
        let rend = render(sc);
        if rend.bytes.len() > 400 {
            return Vec::new();
        }
        let mut out = Vec::new();
        // a hard error / EOF at every call index of a line-by-line and a
        // byte-by-byte delivery (complete over call indices for this input)
        let mut line_script = Vec::new();
        let mut last = 0;
        for (i, &c) in rend.bytes.iter().enumerate() {
            if c == b'\n' {
                line_script.push(ReadStep::Give(i + 1 - last));
                last = i + 1;
            }
        }
        if last < rend.bytes.len() {
            line_script.push(ReadStep::Give(rend.bytes.len() - last));
        }
        for k in 0..=line_script.len() {
            for st in [ReadStep::Fail(ErrKind::Other), ReadStep::FailForever(ErrKind::Other), ReadStep::Eof] {
                let mut s = line_script.clone();
                s.insert(k, st);
                out.push(Sc {
                    script: s,
                    seam: Seam::Direct,
                    ..sc.clone()
                });
            }
        }
        for k in 0..rend.bytes.len() {
            let mut s: Vec<ReadStep> = vec![ReadStep::Give(1); k];
            s.push(ReadStep::Fail(ErrKind::BrokenPipe));
            out.push(Sc {
                script: s,
                seam: Seam::Direct,
                ..sc.clone()
            });
        }
        out
    }

    fn classify(&self, sc: &Sc, _v: &Violation) -> String {
        if has_content_fault(sc) {
            "content-fault".into()
        } else {
            "wellformed".into()
        }
    }

    fn work_factor(&self) -> Option<u64> {
        Some(2048)
    }
    fn rule(&self) -> String {
        "Each run draws 0..8 records from a structured model (PKGNAME first, then any subset/order of the other \
         keys, repeated scalar keys, unknown keys, lines without '=', blank lines, ASCII blanks around lines, \
         values containing '=', 'PKGNAME=' inside values, list fields with 0..6 items from pools of known-valid \
         dependencies/paths; the same key deliberately placed in adjacent records), at most one content fault \
         (block without PKGNAME, invalid ALL_DEPENDS item, invalid PKG_LOCATION), and a fill_buf script (1-byte, \
         random, whole lines, chunks ending inside multi-byte characters, between records, right after 'PKGNAME='; \
         EINTR anywhere; one hard error; early EOF) served either by the simulator's own BufRead or by \
         std BufReader::with_capacity over the scripted reader. Non-trivial = a chunk boundary strictly inside \
         the input or a fault fired; distinct = distinct schedule signatures. For inputs of at most 400 bytes a \
         subset of runs sweeps a hard error / EOF at every line index and a hard error at every byte index \
         (sweep_evaluations; complete over positions for that input)."
            .to_string()
    }
    fn components_real(&self) -> Vec<&'static str> {
        vec![
            "pkgsrc::ScanIndex::from_reader (serde visitor, typed field extraction)",
            "pkgsrc::{Depend, Pattern, PkgPath, PkgName}::new",
            "std BufRead::lines / read_until, BufReader",
        ]
    }
    fn components_stub(&self) -> Vec<&'static str> {
        vec!["the reader (SimBufReader / SimReader: scripted)"]
    }
    fn assumptions(&self) -> Vec<&'static str> {
        vec![
            "inputs stay inside the property's grammar: no blanks between key and '=', no CR, only ASCII blanks at line and value edges, list keys at most once per record",
            "PkgName::new is used to build the expected pkgname value (its correctness is C18)",
            "early EOF inside a record: only the records complete before the cut are compared; combined with a content fault only absence of panics/livelock is required",
        ]
    }
    fn expected_probes(&self) -> Vec<&'static str> {
        vec![
            "same-key-in-adjacent-records",
            "repeated-key",
            "value-with-equals",
            "chunk-ends-inside-multibyte",
            "chunk-ends-after-PKGNAME=",
            "error-at-first-call",
            "error-mid-stream",
            "error-at-last-call",
            "fault-block-without-PKGNAME",
            "fault-bad-dependency",
            "fault-bad-location",
            "empty-input",
            "line-longer-than-64KiB",
        ]
    }
}
