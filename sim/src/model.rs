//! Reference model of a pkg_summary(5) entry, written independently of the
//! library: a BTreeMap from variable index (fixed pkg_summary order) to
//! value, with a canonical printer, plus adapters that drive the real
//! `Summary` through its 23 getters / setters / pushers.

use crate::rng::Rng;
use pkgsrc::summary::Summary;
use serde::{Deserialize, Serialize};
use std::collections::BTreeMap;

#[derive(Clone, Copy, Debug, PartialEq, Eq)]
pub enum Kind {
    S,
    I,
    A,
}

pub struct VarInfo {
    pub name: &'static str,
    pub kind: Kind,
    pub required: bool,
}

/// The 23 variables in the fixed pkg_summary order used for printing.
pub const VARS: [VarInfo; 23] = [
    VarInfo { name: "BUILD_DATE", kind: Kind::S, required: true },
    VarInfo { name: "CATEGORIES", kind: Kind::S, required: true },
    VarInfo { name: "COMMENT", kind: Kind::S, required: true },
    VarInfo { name: "CONFLICTS", kind: Kind::A, required: false },
    VarInfo { name: "DEPENDS", kind: Kind::A, required: false },
    VarInfo { name: "DESCRIPTION", kind: Kind::A, required: true },
    VarInfo { name: "FILE_CKSUM", kind: Kind::S, required: false },
    VarInfo { name: "FILE_NAME", kind: Kind::S, required: false },
    VarInfo { name: "FILE_SIZE", kind: Kind::I, required: false },
    VarInfo { name: "HOMEPAGE", kind: Kind::S, required: false },
    VarInfo { name: "LICENSE", kind: Kind::S, required: false },
    VarInfo { name: "MACHINE_ARCH", kind: Kind::S, required: true },
    VarInfo { name: "OPSYS", kind: Kind::S, required: true },
    VarInfo { name: "OS_VERSION", kind: Kind::S, required: true },
    VarInfo { name: "PKG_OPTIONS", kind: Kind::S, required: false },
    VarInfo { name: "PKGNAME", kind: Kind::S, required: true },
    VarInfo { name: "PKGPATH", kind: Kind::S, required: true },
    VarInfo { name: "PKGTOOLS_VERSION", kind: Kind::S, required: true },
    VarInfo { name: "PREV_PKGPATH", kind: Kind::S, required: false },
    VarInfo { name: "PROVIDES", kind: Kind::A, required: false },
    VarInfo { name: "REQUIRES", kind: Kind::A, required: false },
    VarInfo { name: "SIZE_PKG", kind: Kind::I, required: true },
    VarInfo { name: "SUPERSEDES", kind: Kind::A, required: false },
];

pub const V_FILE_SIZE: usize = 8;
pub const V_SIZE_PKG: usize = 21;
pub const V_DESCRIPTION: usize = 5;

pub fn var_index(name: &str) -> Option<usize> {
    VARS.iter().position(|v| v.name == name)
}

#[derive(Clone, Debug, PartialEq, Eq, Serialize, Deserialize)]
pub enum Val {
    S(String),
    I(i64),
    A(Vec<String>),
}

/// A model entry: variable index -> current value.
pub type Entry = BTreeMap<usize, Val>;

pub fn entry_lines(e: &Entry) -> Vec<String> {
    let mut out = Vec::new();
    for (k, v) in e {
        let name = VARS[*k].name;
        match v {
            Val::S(s) => out.push(format!("{}={}", name, s)),
            Val::I(i) => out.push(format!("{}={}", name, i)),
            Val::A(a) => {
                for s in a {
                    out.push(format!("{}={}", name, s));
                }
            }
        }
    }
    out
}

/// Canonical print: one VAR=value line per value, fixed order, each line
/// newline-terminated.
pub fn print_entry(e: &Entry) -> String {
    let mut s = String::new();
    for l in entry_lines(e) {
        s.push_str(&l);
        s.push('\n');
    }
    s
}

pub fn is_complete(e: &Entry) -> bool {
    VARS.iter().enumerate().all(|(i, v)| !v.required || e.contains_key(&i))
}

/// Read variable `var` from the real Summary through its public getter.
pub fn real_get(sum: &Summary, var: usize) -> Option<Val> {
    fn s(x: Option<&str>) -> Option<Val> {
        x.map(|v| Val::S(v.to_string()))
    }
    fn a(x: Option<&[String]>) -> Option<Val> {
        x.map(|v| Val::A(v.to_vec()))
    }
    match var {
        0 => s(sum.build_date()),
        1 => s(sum.categories()),
        2 => s(sum.comment()),
        3 => a(sum.conflicts()),
        4 => a(sum.depends()),
        5 => a(sum.description()),
        6 => s(sum.file_cksum()),
        7 => s(sum.file_name()),
        8 => sum.file_size().map(Val::I),
        9 => s(sum.homepage()),
        10 => s(sum.license()),
        11 => s(sum.machine_arch()),
        12 => s(sum.opsys()),
        13 => s(sum.os_version()),
        14 => s(sum.pkg_options()),
        15 => s(sum.pkgname()),
        16 => s(sum.pkgpath()),
        17 => s(sum.pkgtools_version()),
        18 => s(sum.prev_pkgpath()),
        19 => a(sum.provides()),
        20 => a(sum.requires()),
        21 => sum.size_pkg().map(Val::I),
        22 => a(sum.supersedes()),
        _ => unreachable!(),
    }
}

/// Call the real setter of `var`.
pub fn real_set(sum: &mut Summary, var: usize, val: &Val) {
    match (var, val) {
        (0, Val::S(v)) => sum.set_build_date(v),
        (1, Val::S(v)) => sum.set_categories(v),
        (2, Val::S(v)) => sum.set_comment(v),
        (3, Val::A(v)) => sum.set_conflicts(v),
        (4, Val::A(v)) => sum.set_depends(v),
        (5, Val::A(v)) => sum.set_description(v),
        (6, Val::S(v)) => sum.set_file_cksum(v),
        (7, Val::S(v)) => sum.set_file_name(v),
        (8, Val::I(v)) => sum.set_file_size(*v),
        (9, Val::S(v)) => sum.set_homepage(v),
        (10, Val::S(v)) => sum.set_license(v),
        (11, Val::S(v)) => sum.set_machine_arch(v),
        (12, Val::S(v)) => sum.set_opsys(v),
        (13, Val::S(v)) => sum.set_os_version(v),
        (14, Val::S(v)) => sum.set_pkg_options(v),
        (15, Val::S(v)) => sum.set_pkgname(v),
        (16, Val::S(v)) => sum.set_pkgpath(v),
        (17, Val::S(v)) => sum.set_pkgtools_version(v),
        (18, Val::S(v)) => sum.set_prev_pkgpath(v),
        (19, Val::A(v)) => sum.set_provides(v),
        (20, Val::A(v)) => sum.set_requires(v),
        (21, Val::I(v)) => sum.set_size_pkg(*v),
        (22, Val::A(v)) => sum.set_supersedes(v),
        _ => panic!("SIM-HARNESS: real_set type mismatch for var {}", var),
    }
}

/// Call the real pusher of list variable `var`.
pub fn real_push(sum: &mut Summary, var: usize, line: &str) {
    match var {
        3 => sum.push_conflicts(line),
        4 => sum.push_depends(line),
        5 => sum.push_description(line),
        19 => sum.push_provides(line),
        20 => sum.push_requires(line),
        22 => sum.push_supersedes(line),
        _ => panic!("SIM-HARNESS: real_push on non-list var {}", var),
    }
}

/// Does getter `var` return exactly `want`?  (No copies: lists of thousands of lines
/// are compared after every operation of a history.)
pub fn real_eq(sum: &Summary, var: usize, want: Option<&Val>) -> bool {
    fn s(x: Option<&str>, want: Option<&Val>) -> bool {
        match (x, want) {
            (None, None) => true,
            (Some(a), Some(Val::S(b))) => a == b,
            _ => false,
        }
    }
    fn a(x: Option<&[String]>, want: Option<&Val>) -> bool {
        match (x, want) {
            (None, None) => true,
            (Some(a), Some(Val::A(b))) => a == &b[..],
            _ => false,
        }
    }
    fn i(x: Option<i64>, want: Option<&Val>) -> bool {
        match (x, want) {
            (None, None) => true,
            (Some(a), Some(Val::I(b))) => a == *b,
            _ => false,
        }
    }
    match var {
        0 => s(sum.build_date(), want),
        1 => s(sum.categories(), want),
        2 => s(sum.comment(), want),
        3 => a(sum.conflicts(), want),
        4 => a(sum.depends(), want),
        5 => a(sum.description(), want),
        6 => s(sum.file_cksum(), want),
        7 => s(sum.file_name(), want),
        8 => i(sum.file_size(), want),
        9 => s(sum.homepage(), want),
        10 => s(sum.license(), want),
        11 => s(sum.machine_arch(), want),
        12 => s(sum.opsys(), want),
        13 => s(sum.os_version(), want),
        14 => s(sum.pkg_options(), want),
        15 => s(sum.pkgname(), want),
        16 => s(sum.pkgpath(), want),
        17 => s(sum.pkgtools_version(), want),
        18 => s(sum.prev_pkgpath(), want),
        19 => a(sum.provides(), want),
        20 => a(sum.requires(), want),
        21 => i(sum.size_pkg(), want),
        22 => a(sum.supersedes(), want),
        _ => unreachable!(),
    }
}

/// Call every getter once (their results are dropped): "returns normally".
pub fn touch_all_getters(sum: &Summary) {
    for v in 0..VARS.len() {
        let _ = real_eq(sum, v, None);
    }
}

/// Compare a real Summary with a model entry through all 23 getters.
pub fn compare(sum: &Summary, model: &Entry) -> Result<(), String> {
    for i in 0..VARS.len() {
        let want = model.get(&i);
        if real_eq(sum, i, want) {
            continue;
        }
        let got = real_get(sum, i);
        if got.as_ref() != want {
            return Err(format!(
                "{}: getter returns {:?}, model has {:?}",
                VARS[i].name, got, want
            ));
        }
    }
    if sum.is_completed() != is_complete(model) {
        return Err(format!(
            "is_completed() is {} but model completeness is {}",
            sum.is_completed(),
            is_complete(model)
        ));
    }
    Ok(())
}

// ---------------------------------------------------------------------------
// Generators
// ---------------------------------------------------------------------------

const ASCII_POOL: &[u8] = b"abcdefghijklmnopqrstuvwxyzABCXYZ0123456789 =.-_/:+,()[]{}<>*?$#@!~'\"\\\t";
const MULTI_POOL: [&str; 14] = [
    "\u{e9}",      // 2 bytes
    "\u{fc}",      // 2 bytes
    "\u{85}",      // NEL (2 bytes, Unicode white space, not a line break for str::lines)
    "\u{a0}",      // NBSP
    "\u{3b1}",     // 2 bytes
    "\u{20ac}",    // 3 bytes
    "\u{2028}",    // LINE SEPARATOR (3 bytes)
    "\u{65e5}",    // 3 bytes
    "\u{672c}",    // 3 bytes
    "\u{feff}",    // BOM
    "\u{1f600}",   // 4 bytes
    "\u{10348}",   // 4 bytes
    "\u{10ffff}",  // 4 bytes, last code point
    "\u{7ff}",     // largest 2-byte
];

/// A value text: no CR, no LF; ASCII, '=', multi-byte UTF-8.
pub fn gen_text(rng: &mut Rng, ascii_only: bool, long_ok: bool) -> String {
    if long_ok && !ascii_only && rng.chance(1, 400) {
        // scale: a value beyond 64 KiB (sometimes 128 KiB) of multi-byte text, shifted by
        // 0..3 bytes so that characters lie across the multiples of 65536
        let unit: &str = rng.pick_str(&["\u{e9}", "\u{20ac}", "\u{1f600}", "ab\u{e9}"]);
        let target = *rng.pick(&[66_000usize, 70_000, 132_000]);
        let mut s = "x".repeat(rng.urange(0, 3));
        while s.len() < target {
            s.push_str(unit);
        }
        return s;
    }
    if rng.chance(1, 12) {
        // values with a structure of their own, which a "helpful" parser may normalise:
        // dates and times that are not zero-padded, numbers with signs, leading zeros,
        // exponents or separators, versions, URLs, addresses, booleans, quoted text
        return rng
            .pick_str(&[
                "2019-8-2 5:08:02 +0100", "2019-08-02 05:08:02 +0100", "02019-08-02 05:08:02 +0100", "12-08-2019 5:8:2 -0000", "2019-08-02T05:08:02Z",
                "1970-01-01 00:00:00 +0000", "2024-02-30 25:61:61 +9999", "20240101", "Mon Jan  1 00:00:00 UTC 2024",
                "007", "+7", "-0", "1e3", "0x10", "1_000", "1,000", "3.0", " 42", "42 ", "٤٢", "１２３", "9223372036854775808", "-9223372036854775809",
                "1.0nb1", "v1.0", "1.0.0-rc1+build.5", "TRUE", "yes", "null", "None", "NaN",
                "http://example.org/a b?x=1&y=%20#frag", "HTTPS://EXAMPLE.ORG/", "user@example.org", "<user@example.org>", "Name <user@example.org>",
                "\"quoted\"", "'quoted'", "back\\slash", "a\\nb", "${PREFIX}/bin", "$(cmd)", "`cmd`", "%s %d %%", "{0} {}", "a;b|c&d",
                "x86_64", "X86_64", "NetBSD", "netbsd", "devel/foo", "devel//foo/", "../../devel/foo", "devel/foo:opt",
            ])
            .to_string();
    }
    let n = if long_ok && rng.chance(1, 40) {
        rng.urange(200, 4096)
    } else if rng.chance(1, 8) {
        0
    } else {
        rng.urange(1, 40)
    };
    let multi_rate = if ascii_only {
        0
    } else {
        *rng.pick(&[0u64, 1, 1, 4, 16])
    };
    let mut s = String::new();
    for _ in 0..n {
        if multi_rate > 0 && rng.chance(multi_rate, 16) {
            let m: &&str = rng.pick(&MULTI_POOL[..]);
            s.push_str(m);
        } else {
            s.push(*rng.pick(ASCII_POOL) as char);
        }
    }
    s
}

pub fn gen_int(rng: &mut Rng) -> i64 {
    match rng.below(8) {
        0 => 0,
        1 => -1,
        2 => i64::MAX,
        3 => i64::MIN,
        4 => -(rng.below(1_000_000) as i64),
        _ => rng.below(10_000_000_000) as i64,
    }
}

pub fn gen_list(rng: &mut Rng, ascii_only: bool) -> Vec<String> {
    if rng.chance(1, 500) {
        // scale: a list of more than 255 / 256 / 1024 (rarely 65536) lines
        let n = *rng.pick(&[257usize, 300, 1100, 4100]);
        return (0..n).map(|i| format!("l{}", i)).collect();
    }
    let n = rng.urange(1, 4);
    (0..n).map(|_| gen_text(rng, ascii_only, false)).collect()
}

pub fn gen_val(rng: &mut Rng, var: usize, ascii_only: bool, long_ok: bool) -> Val {
    match VARS[var].kind {
        Kind::S => Val::S(gen_text(rng, ascii_only, long_ok)),
        Kind::I => Val::I(gen_int(rng)),
        Kind::A => Val::A(gen_list(rng, ascii_only)),
    }
}

/// A complete entry: all required variables and a random subset of the
/// optional ones.
pub fn gen_entry(rng: &mut Rng, ascii_only: bool, long_ok: bool) -> Entry {
    let mut e = Entry::new();
    let opt_rate = *rng.pick(&[0u64, 2, 4, 8]);
    for (i, v) in VARS.iter().enumerate() {
        if v.required || rng.chance(opt_rate, 8) {
            e.insert(i, gen_val(rng, i, ascii_only, long_ok));
        }
    }
    // the shape real pkg_summary data has: the description of a package with a HOMEPAGE
    // ends in an empty line, "Homepage:" and that URL (pkg_info appends them)
    if rng.chance(1, 5) {
        let url = match e.get(&9) {
            Some(Val::S(u)) => u.clone(),
            _ => {
                let u = "https://www.example.org/".to_string();
                e.insert(9, Val::S(u.clone()));
                u
            }
        };
        if let Some(Val::A(d)) = e.get_mut(&V_DESCRIPTION) {
            d.push(String::new());
            d.push("Homepage:".to_string());
            d.push(url);
        }
    }
    e
}
