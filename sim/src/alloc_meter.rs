//! The allocator seam: every heap allocation of the process goes through
//! this wrapper, which keeps per-thread counters.  The simulator reads them
//! around library calls to obtain a *deterministic* measure of work (bytes the
//! call allocated) - the complement of the wall-clock watchdog, which can only
//! decide "hangs", not "does far too much work for this input".
//!
//! Counting only; allocations are never failed (an allocation failure aborts a
//! Rust process, it does not unwind, so there is nothing to observe there).

use std::alloc::{GlobalAlloc, Layout, System};
use std::cell::Cell;

thread_local! {
    static BYTES: Cell<u64> = const { Cell::new(0) };
    static CALLS: Cell<u64> = const { Cell::new(0) };
}

pub struct Meter;

#[inline]
fn note(n: usize) {
    let _ = BYTES.try_with(|b| b.set(b.get().wrapping_add(n as u64)));
    let _ = CALLS.try_with(|c| c.set(c.get().wrapping_add(1)));
}

unsafe impl GlobalAlloc for Meter {
    #[inline]
    unsafe fn alloc(&self, l: Layout) -> *mut u8 {
        note(l.size());
        System.alloc(l)
    }
    #[inline]
    unsafe fn dealloc(&self, p: *mut u8, l: Layout) {
        System.dealloc(p, l)
    }
    #[inline]
    unsafe fn alloc_zeroed(&self, l: Layout) -> *mut u8 {
        note(l.size());
        System.alloc_zeroed(l)
    }
    #[inline]
    unsafe fn realloc(&self, p: *mut u8, l: Layout, new_size: usize) -> *mut u8 {
        // a growing buffer may be copied: the new size is the work
        note(new_size);
        System.realloc(p, l, new_size)
    }
}

/// Bytes allocated by the current thread so far.
#[inline]
pub fn bytes() -> u64 {
    BYTES.try_with(|b| b.get()).unwrap_or(0)
}

/// Allocation calls made by the current thread so far.
#[inline]
pub fn calls() -> u64 {
    CALLS.try_with(|c| c.get()).unwrap_or(0)
}

thread_local! {
    static EXCLUDED: Cell<u64> = const { Cell::new(0) };
}

/// Bytes allocated by the current thread that count as library work:
/// everything except what was allocated while an `Exclude` guard was alive.
#[inline]
pub fn work_bytes() -> u64 {
    bytes().wrapping_sub(EXCLUDED.try_with(|e| e.get()).unwrap_or(0))
}

/// RAII guard used inside the simulator's seams (reader scripts, logs): what
/// the harness allocates while the library is calling into a seam is not the
/// library's work.  Guards nest (a reader may run a nested library call that
/// has readers of its own): only the outermost one accounts.
pub struct Exclude {
    b0: u64,
    outermost: bool,
}

thread_local! {
    static DEPTH: Cell<u32> = const { Cell::new(0) };
}

impl Exclude {
    #[inline]
    pub fn new() -> Exclude {
        let d = DEPTH.try_with(|d| {
            let v = d.get();
            d.set(v + 1);
            v
        })
        .unwrap_or(1);
        Exclude {
            b0: bytes(),
            outermost: d == 0,
        }
    }
}

impl Drop for Exclude {
    #[inline]
    fn drop(&mut self) {
        let _ = DEPTH.try_with(|d| d.set(d.get().saturating_sub(1)));
        if self.outermost {
            let delta = bytes().wrapping_sub(self.b0);
            let _ = EXCLUDED.try_with(|e| e.set(e.get().wrapping_add(delta)));
        }
    }
}
