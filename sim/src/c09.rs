//! C09 - streamed pkg_summary parsing is independent of how the bytes are
//! chunked.  The simulator owns the partition of the byte stream into `write`
//! calls (directly, or through `std::io::copy` from a scripted reader with
//! short reads, EINTR, hard errors and early EOF).

use crate::framework::*;
use crate::model::*;
use crate::rng::Rng;
use crate::seams::*;
use pkgsrc::summary::SummaryStream;
use serde::{Deserialize, Serialize};
use std::io::{self, Write};

#[derive(Clone, Debug, Serialize, Deserialize)]
pub enum BadKind {
    /// Insert a line without '=' before line `at` of the entry.
    NoEquals { at: usize, text: String },
    /// Insert a VAR=value line whose VAR is not a pkg_summary variable.
    UnknownVar { at: usize, line: String },
    /// FILE_SIZE (8) or SIZE_PKG (21) gets a non-integer value.
    BadInt { var: usize, text: String },
    /// One required variable is removed.
    MissingRequired { var: usize },
    /// Bytes that are not valid UTF-8 are appended to the value on line `line`.
    InvalidUtf8 {
        line: usize,
        #[serde(with = "esc")]
        bytes: Vec<u8>,
    },
}

#[derive(Clone, Debug, Serialize, Deserialize)]
pub struct Bad {
    pub index: usize,
    pub kind: BadKind,
}

#[derive(Clone, Copy, Debug, Serialize, Deserialize, PartialEq, Eq)]
pub enum Driver {
    /// The harness calls `write` once per chunk.
    Direct,
    /// `std::io::copy(SimReader, SummaryStream)`: the reader's script is the partition.
    Copy,
}

#[derive(Clone, Debug, Serialize, Deserialize)]
pub struct Sc {
    pub entries: Vec<Entry>,
    pub bad: Option<Bad>,
    pub driver: Driver,
    /// Direct: chunk lengths (0 allowed); the remainder goes in one final write.
    pub chunks: Vec<usize>,
    /// Copy: the reader script.
    pub script: Vec<ReadStep>,
    /// Partition used to re-feed the printed output.
    pub refeed: Vec<usize>,
    /// The consumer clones the stream object after this many writes and carries
    /// on with the clone (the carry-over state must travel with it).
    #[serde(default)]
    pub clone_after: Option<usize>,
    /// The consumer drains the collected entries (entries_mut) after every
    /// this-many writes, as a long-running reader would.
    #[serde(default)]
    pub drain_every: Option<usize>,
    /// Start from SummaryStream::default() instead of new().
    #[serde(default)]
    pub from_default: bool,
    /// The consumer calls flush() after every this-many writes (a BufWriter or
    /// io::copy wrapper does): flushing must not change what is collected.
    #[serde(default)]
    pub flush_every: Option<usize>,
    /// what happens to the two objects after `clone_after`: 0 = carry on with
    /// the clone, the original is dropped; 1 = carry on with the original, the
    /// clone stays alive (a checkpoint); 2 = carry on with the clone, the
    /// original stays alive
    #[serde(default)]
    pub clone_mode: u8,
    /// a second, independent stream object fed in turn with the first: before
    /// every write to the stream under test it receives the next `twin_chunk`
    /// bytes of its own (well-formed) stream, and a further stream object is
    /// created and dropped.  Both must collect their own entries.
    #[serde(default)]
    pub twin_entries: Vec<Entry>,
    #[serde(default)]
    pub twin_chunk: usize,
    /// before the last checks the collection is printed into a sink that reports an
    /// error after this many bytes; the prints that follow must not notice
    #[serde(default)]
    pub sink_fail_at: Option<usize>,
    /// 0: one caller thread.  Otherwise write number i (and the final prints, bit 62)
    /// are made by a second thread when bit i mod 63 is set.
    #[serde(default)]
    pub migrate: u64,
    /// every write of two bytes or more goes through write_vectored, as two slices
    #[serde(default)]
    pub vectored: bool,
}

pub struct Rendered {
    pub bytes: Vec<u8>,
    /// offset just past the "\n\n" of entry i
    pub term_ends: Vec<usize>,
}

pub fn render(sc: &Sc) -> Rendered {
    let mut bytes: Vec<u8> = Vec::new();
    let mut term_ends = Vec::new();
    for (i, e) in sc.entries.iter().enumerate() {
        let mut e2 = e.clone();
        let mut lines: Vec<Vec<u8>>;
        match &sc.bad {
            Some(b) if b.index == i => {
                match &b.kind {
                    BadKind::MissingRequired { var } => {
                        e2.remove(var);
                        lines = entry_lines(&e2).into_iter().map(|l| l.into_bytes()).collect();
                    }
                    BadKind::BadInt { var, text } => {
                        e2.insert(*var, Val::S(text.clone()));
                        lines = entry_lines(&e2).into_iter().map(|l| l.into_bytes()).collect();
                    }
                    BadKind::NoEquals { at, text } => {
                        lines = entry_lines(&e2).into_iter().map(|l| l.into_bytes()).collect();
                        let at = (*at).min(lines.len());
                        lines.insert(at, text.clone().into_bytes());
                    }
                    BadKind::UnknownVar { at, line } => {
                        lines = entry_lines(&e2).into_iter().map(|l| l.into_bytes()).collect();
                        let at = (*at).min(lines.len());
                        lines.insert(at, line.clone().into_bytes());
                    }
                    BadKind::InvalidUtf8 { line, bytes: b } => {
                        lines = entry_lines(&e2).into_iter().map(|l| l.into_bytes()).collect();
                        let li = (*line).min(lines.len().saturating_sub(1));
                        if let Some(l) = lines.get_mut(li) {
                            l.extend_from_slice(b);
                        }
                    }
                }
            }
            _ => {
                lines = entry_lines(&e2).into_iter().map(|l| l.into_bytes()).collect();
            }
        }
        for l in lines {
            bytes.extend_from_slice(&l);
            bytes.push(b'\n');
        }
        bytes.push(b'\n');
        term_ends.push(bytes.len());
    }
    Rendered { bytes, term_ends }
}

fn cuts_to_lens(mut cuts: Vec<usize>, len: usize) -> Vec<usize> {
    cuts.retain(|&c| c > 0 && c < len);
    cuts.sort_unstable();
    cuts.dedup();
    let mut out = Vec::new();
    let mut last = 0;
    for c in cuts {
        out.push(c - last);
        last = c;
    }
    out
}

fn interesting(bytes: &[u8]) -> (Vec<usize>, Vec<usize>, Vec<usize>) {
    let mut multi = Vec::new();
    let mut sep = Vec::new();
    let mut eq = Vec::new();
    for i in 0..bytes.len() {
        if (0x80..0xc0).contains(&bytes[i]) {
            multi.push(i);
        }
        if bytes[i] == b'\n' && i + 1 < bytes.len() && bytes[i + 1] == b'\n' {
            sep.push(i);
            sep.push(i + 1);
            sep.push(i + 2);
        }
        if bytes[i] == b'=' {
            eq.push(i + 1);
        }
    }
    (multi, sep, eq)
}

fn gen_partition(rng: &mut Rng, bytes: &[u8], allow_zero: bool) -> Vec<usize> {
    let len = bytes.len();
    if len < 2 {
        return Vec::new();
    }
    if len > 40_000 {
        // a large stream: realistic pieces (512 bytes to 64 KiB), plus cuts inside the
        // separators and the multi-byte characters next to them - not a byte at a
        // time (an unfinished record is re-examined on every write, which is fine
        // for real piece sizes and would only measure the harness here)
        let mut cuts: Vec<usize> = Vec::new();
        let mut pos = 0usize;
        while pos < len {
            pos += *rng.pick(&[512usize, 4096, 8192, 8192, 16_384, 65_536, 65_536]) + rng.urange(0, 3);
            if pos < len {
                cuts.push(pos);
            }
        }
        let (multi, seps, _) = interesting(bytes);
        for _ in 0..rng.urange(0, 6) {
            if !seps.is_empty() {
                cuts.push(*rng.pick(&seps));
            }
            if !multi.is_empty() {
                cuts.push(*rng.pick(&multi));
            }
        }
        cuts.retain(|&c| c > 0 && c < len);
        return cuts_to_lens(cuts, len);
    }
    let mut lens: Vec<usize> = match rng.below(10) {
        0 => Vec::new(),
        1 => vec![rng.urange(1, len - 1)],
        2 => cuts_to_lens(vec![rng.urange(1, len - 1), rng.urange(1, len - 1)], len),
        3 => {
            let s = *rng.pick(&[1usize, 2, 3, 5, 7, 64, 4096, 8192]);
            let mut v = Vec::new();
            let mut left = len;
            while left > s {
                v.push(s);
                left -= s;
            }
            v
        }
        4 => {
            let m = *rng.pick(&[2usize, 4, 16, 100, 1000]);
            let mut v = Vec::new();
            let mut left = len;
            loop {
                let n = rng.urange(1, m);
                if n >= left {
                    break;
                }
                v.push(n);
                left -= n;
            }
            v
        }
        5 | 6 => {
            // biased into in-flight state: a random subset of interesting cuts
            let (multi, sep, eq) = interesting(bytes);
            let mut cuts = Vec::new();
            let rate = *rng.pick(&[1u64, 4, 8]);
            for p in multi.iter().chain(sep.iter()).chain(eq.iter()) {
                if rng.chance(rate, 8) {
                    cuts.push(*p);
                }
            }
            cuts_to_lens(cuts, len)
        }
        7 => {
            // every interior byte of every multi-byte character and every separator byte
            let (multi, sep, _) = interesting(bytes);
            let mut cuts = multi;
            cuts.extend(sep);
            cuts_to_lens(cuts, len)
        }
        8 => {
            // around 8 KiB boundaries (what io::copy from a file does)
            let mut cuts = Vec::new();
            let mut b = 8192usize;
            while b < len {
                cuts.push((b as i64 + rng.range(0, 6) as i64 - 3) as usize);
                b += 8192;
            }
            cuts_to_lens(cuts, len)
        }
        _ => {
            // one cut inside a multi-byte character or separator, if any
            let (multi, sep, _) = interesting(bytes);
            let pool: Vec<usize> = multi.into_iter().chain(sep).collect();
            if pool.is_empty() {
                vec![rng.urange(1, len - 1)]
            } else {
                cuts_to_lens(vec![*rng.pick(&pool)], len)
            }
        }
    };
    if allow_zero && rng.chance(1, 5) {
        let n = rng.urange(1, 3);
        for _ in 0..n {
            let at = rng.urange(0, lens.len());
            lens.insert(at, 0);
        }
    }
    lens
}

fn gen_bad(rng: &mut Rng, entries: &[Entry]) -> Bad {
    let n = entries.len();
    let index = match rng.below(3) {
        0 => 0,
        1 => n - 1,
        _ => rng.usize_below(n),
    };
    let nlines = entry_lines(&entries[index]).len();
    let kind = match rng.below(5) {
        0 => BadKind::NoEquals {
            at: rng.urange(0, nlines),
            text: rng
                .pick(&["garbage", "BUILD_DATE", "PKGNAME foo-1.0", "x", " ", "\u{e9}t\u{e9}", "COMMENT:", "\t"])
                .to_string(),
        },
        1 if rng.chance(1, 25) => BadKind::UnknownVar {
            // scale: an offending line beyond 64 KiB whose multi-byte characters lie
            // across byte 65536 (a copy of it may go into the error value)
            at: rng.urange(0, nlines),
            line: {
                let mut l = "x".repeat(rng.urange(0, 3));
                let unit = *rng.pick(&["\u{e9}", "\u{20ac}", "\u{1f600}"]);
                while l.len() < 66_000 {
                    l.push_str(unit);
                }
                if rng.chance(1, 2) {
                    l.push_str("=value");
                }
                l
            },
        },
        1 => BadKind::UnknownVar {
            at: rng.urange(0, nlines),
            line: rng
                .pick(&[
                    "BILD_DATE=x",
                    "build_date=2019",
                    "PKGNAME =foo-1.0",
                    " PKGNAME=foo-1.0",
                    "=value",
                    "PKG_NAME=foo",
                    "FILESIZE=1",
                    "DESCRIPTIONS=x",
                    "PKGPATH\t=a/b",
                    "CONFLICT=x",
                    "\u{feff}COMMENT=x",
                    "Gr\u{f6}\u{df}e=4321",
                    "\u{e9}=1",
                    "\u{65e5}\u{672c}=x",
                    "COMMENT\u{e9}=x",
                    "\u{1f600}\u{1f600}=x=y",
                ])
                .to_string(),
        },
        2 => BadKind::BadInt {
            var: if rng.chance(1, 2) { V_FILE_SIZE } else { V_SIZE_PKG },
            text: rng
                .pick(&["abc", "", "1.5", "9223372036854775808", "0x10", " 1", "1 ", "1,000", "--1", "\u{661}\u{662}", "NaN"])
                .to_string(),
        },
        3 => {
            let req: Vec<usize> = VARS
                .iter()
                .enumerate()
                .filter(|(_, v)| v.required)
                .map(|(i, _)| i)
                .collect();
            BadKind::MissingRequired { var: *rng.pick(&req) }
        }
        _ => {
            let seqs: [&[u8]; 16] = [
                // four-byte sequences cut after 1, 2 and 3 bytes; lead bytes that announce 4
                // bytes or more but are never valid
                b"\xf0",
                b"\xf4",
                b"\xf0\x9f",
                b"\xf0\x9f\x98",
                b"\xf5",
                b"\xf8\x88\x80\x80\x80",
                b"\xe0\x80\x80", // overlong three-byte form
                b"\xc1\xbf",     // overlong two-byte form
                b"\xff",
                b"\xc3",       // truncated 2-byte sequence followed by newline
                b"\x80",       // stray continuation byte
                b"\xc0\x80",   // overlong
                b"\xe2\x82",   // truncated 3-byte sequence
                b"\xe2\x82x",  // truncated then ASCII
                b"\xed\xa0\x80", // surrogate
                b"\xf4\x90\x80\x80", // > U+10FFFF
            ];
            BadKind::InvalidUtf8 {
                line: rng.usize_below(nlines.max(1)),
                bytes: rng.pick(&seqs).to_vec(),
            }
        }
    };
    Bad { index, kind }
}

pub struct C09;

/// Wraps the real SummaryStream; checks the per-write invariants.
struct Mon<'a> {
    stream: SummaryStream,
    /// entries the consumer has already taken out of the stream
    drained: Vec<pkgsrc::summary::Summary>,
    sc: &'a Sc,
    rend: &'a Rendered,
    delivered: usize,
    checked: usize,
    writes: Vec<(usize, bool)>,
    failed: bool,
    violation: Option<Violation>,
    probes: Vec<&'static str>,
    /// work meter: bytes the write calls allocated / were given (chunk + carry-over)
    work_alloc: u64,
    work_input: u64,
    work_calls: u64,
    work_ratio_milli: u64,
    work_worst: (u64, u64),
    /// objects kept alive next to the stream under test (clones, originals)
    keep: Vec<SummaryStream>,
    twin: Option<SummaryStream>,
    twin_bytes: Vec<u8>,
    twin_pos: usize,
    /// a second caller thread: write number i is made by it when bit i mod 63 of the
    /// mask is set (the stream object moves between threads with its carry-over)
    helper: Option<Helper>,
    mask: u64,
}

impl<'a> Mon<'a> {
    fn total(&self) -> usize {
        self.drained.len() + self.stream.entries().len()
    }
    fn entry(&self, i: usize) -> &pkgsrc::summary::Summary {
        if i < self.drained.len() {
            &self.drained[i]
        } else {
            &self.stream.entries()[i - self.drained.len()]
        }
    }
    fn printed(&self) -> String {
        let mut s = String::new();
        for e in &self.drained {
            s.push_str(&format!("{}\n", e));
        }
        s.push_str(&on_thread!(self.helper, self.mask, 62u64, self.stream.to_string()));
        s
    }
    fn terminated(&self, delivered: usize) -> usize {
        self.rend.term_ends.iter().filter(|&&t| t <= delivered).count()
    }
    fn flag(&mut self, clause: &str, detail: String) {
        if self.violation.is_none() {
            self.violation = Some(Violation::new(clause, detail));
        }
    }
    fn cut_class(&self, at: usize) -> &'static str {
        let b = &self.rend.bytes;
        if at > 0 && at < b.len() {
            if (0x80..0xc0).contains(&b[at]) {
                return "cut-inside-multibyte";
            }
            if b[at - 1] == b'\n' && b[at] == b'\n' {
                return "cut-inside-separator";
            }
        }
        "cut-elsewhere"
    }
}

impl<'a> Write for Mon<'a> {
    fn write(&mut self, buf: &[u8]) -> io::Result<usize> {
        let before_entries = self.total();
        let before = self.delivered;
        if buf.is_empty() {
            self.probes.push("write-of-zero");
        }
        if before > 0 && !self.rend.term_ends.contains(&before) && !buf.is_empty() {
            self.probes.push("carry-over-non-empty-at-write");
        }
        match self.cut_class(before) {
            "cut-inside-multibyte" => self.probes.push("cut-inside-multibyte"),
            "cut-inside-separator" => self.probes.push("cut-inside-separator"),
            _ => {}
        }
        if let Some(t) = self.twin.as_mut() {
            // another stream object appears and goes away, and the twin gets its next bytes
            let fresh = if self.writes.len() % 2 == 0 { SummaryStream::new() } else { SummaryStream::default() };
            drop(fresh);
            if self.twin_pos < self.twin_bytes.len() {
                let c = self.sc.twin_chunk.max(1).min(self.twin_bytes.len() - self.twin_pos);
                let r = t.write(&self.twin_bytes[self.twin_pos..self.twin_pos + c]);
                if !matches!(r, Ok(n) if n == c) && self.violation.is_none() {
                    self.violation = Some(Violation::new(
                        "twin-stream-disturbed",
                        format!(
                            "a second, independent stream fed in turn with the first: its write of {} bytes at offset {} of its own well-formed stream returned {:?}",
                            c,
                            self.twin_pos,
                            r.map_err(|e| e.to_string())
                        ),
                    ));
                }
                self.twin_pos += c;
            }
        }
        let vectored = self.sc.vectored && buf.len() >= 2;
        let (res, wa) = on_thread!(self.helper, self.mask, self.writes.len(), {
            let w0 = crate::alloc_meter::work_bytes();
            let res = if vectored {
                // the same bytes handed over as two slices through write_vectored (what
                // io::Write users with scattered buffers do); a call may take fewer bytes
                // than offered, the rest is offered again until everything is taken
                let cut = 1 + (self.writes.len() * 7 + buf.len() / 3) % (buf.len() - 1);
                let mut taken = 0usize;
                let mut r: io::Result<usize> = Ok(buf.len());
                while taken < buf.len() {
                    let (a, b): (&[u8], &[u8]) = if taken < cut { (&buf[taken..cut], &buf[cut..]) } else { (&buf[taken..], &[]) };
                    match self.stream.write_vectored(&[io::IoSlice::new(a), io::IoSlice::new(b)]) {
                        Ok(0) => {
                            r = Err(io::Error::new(io::ErrorKind::WriteZero, "write_vectored took nothing"));
                            break;
                        }
                        Ok(n) => taken += n,
                        Err(e) => {
                            r = Err(e);
                            break;
                        }
                    }
                }
                r
            } else {
                self.stream.write(buf)
            };
            (res, crate::alloc_meter::work_bytes().wrapping_sub(w0))
        });
        if vectored {
            self.probes.push("written-through-write_vectored");
        }
        self.work_alloc += wa;
        // the call may have to look at what earlier writes left pending
        let last_term = self.rend.term_ends.iter().cloned().filter(|&t| t <= before).max().unwrap_or(0);
        let wi = (buf.len() + (before - last_term)) as u64;
        self.work_input += wi;
        self.work_calls += 1;
        let wr = wa.saturating_mul(1000) / (wi + CALL_ALLOWANCE);
        if wr > self.work_ratio_milli {
            self.work_ratio_milli = wr;
            self.work_worst = (wa, wi);
        }
        self.writes.push((buf.len(), res.is_ok()));
        let bad_idx = self.sc.bad.as_ref().map(|b| b.index);
        match res {
            Ok(n) => {
                if n != buf.len() {
                    self.flag(
                        "short-write",
                        format!("write of {} bytes at offset {} returned Ok({})", buf.len(), before, n),
                    );
                }
                self.delivered += buf.len();
                let n_entries = self.total();
                if n_entries < before_entries {
                    self.flag(
                        "entries-shrank",
                        format!("entries() went from {} to {}", before_entries, n_entries),
                    );
                }
                let term = self.terminated(self.delivered);
                if self.terminated(self.delivered) >= self.terminated(before) + 2 {
                    self.probes.push("several-entries-in-one-write");
                }
                let limit = match bad_idx {
                    Some(b) => term.min(b),
                    None => term,
                };
                if n_entries > limit {
                    let clause = if bad_idx.map_or(false, |b| n_entries > b) {
                        "malformed-entry-accepted"
                    } else {
                        "entry-before-terminator"
                    };
                    self.flag(
                        clause,
                        format!(
                            "after {} bytes {} entries are collected but only {} entries are complete and well-formed",
                            self.delivered, n_entries, limit
                        ),
                    );
                }
                let upto = n_entries.min(self.sc.entries.len());
                for i in self.checked..upto {
                    if let Err(e) = compare(self.entry(i), &self.sc.entries[i]) {
                        self.flag("entry-mismatch", format!("entry {}: {}", i, e));
                    }
                }
                self.checked = self.checked.max(upto);
                if let Some(b) = bad_idx {
                    if self.delivered >= self.rend.term_ends[b] {
                        self.flag(
                            "malformed-not-rejected-in-time",
                            format!(
                                "entry {} is malformed and complete after {} bytes, but every write so far succeeded",
                                b, self.delivered
                            ),
                        );
                    }
                }
                // the consumer's own actions between writes
                let k = self.writes.len();
                if self.sc.clone_after == Some(k) {
                    self.probes.push("stream-cloned-mid-delivery");
                    let c = self.stream.clone();
                    match self.sc.clone_mode {
                        1 => self.keep.push(c),
                        2 => {
                            let original = std::mem::replace(&mut self.stream, c);
                            self.keep.push(original);
                        }
                        _ => self.stream = c,
                    }
                }
                if let Some(fl) = self.sc.flush_every {
                    if fl > 0 && k % fl == 0 {
                        self.probes.push("flush-between-writes");
                        let before = self.total();
                        if let Err(e) = self.stream.flush() {
                            self.flag("flush-failed", format!("flush() after write #{} failed: {}", k, e));
                        }
                        if self.total() != before {
                            self.flag(
                                "flush-changed-entries",
                                format!("flush() after write #{} changed the number of collected entries from {} to {}", k, before, self.total()),
                            );
                        }
                    }
                }
                if let Some(d) = self.sc.drain_every {
                    if d > 0 && k % d == 0 {
                        let taken = std::mem::take(self.stream.entries_mut());
                        if !taken.is_empty() {
                            self.probes.push("entries-drained-between-writes");
                        }
                        self.drained.extend(taken);
                    }
                }
                Ok(n)
            }
            Err(e) => {
                self.failed = true;
                match bad_idx {
                    None => {
                        let class = self.cut_class(before + buf.len());
                        self.flag(
                            "write-failed-on-wellformed",
                            format!(
                                "write #{} ({} bytes at offset {}, {}) of a well-formed stream failed: {} ({:?})",
                                self.writes.len(),
                                buf.len(),
                                before,
                                class,
                                e,
                                e.kind()
                            ),
                        );
                    }
                    Some(b) => {
                        let bad_start = if b == 0 { 0 } else { self.rend.term_ends[b - 1] };
                        if before + buf.len() <= bad_start {
                            self.flag(
                                "write-failed-on-wellformed",
                                format!(
                                    "write ending at offset {} failed ({}) before any byte of the malformed entry (starts at {}) was delivered",
                                    before + buf.len(),
                                    e,
                                    bad_start
                                ),
                            );
                        } else {
                            if e.kind() != io::ErrorKind::InvalidData {
                                self.flag(
                                    "wrong-error-kind",
                                    format!("malformed entry reported as {:?}, not InvalidData", e.kind()),
                                );
                            }
                            let n_entries = self.total();
                            if n_entries != b {
                                self.flag(
                                    "entries-at-failure-wrong",
                                    format!(
                                        "write failed on malformed entry {} but {} entries are collected (expected exactly the {} preceding ones)",
                                        b, n_entries, b
                                    ),
                                );
                            } else {
                                for i in 0..b {
                                    if let Err(m) = compare(self.entry(i), &self.sc.entries[i]) {
                                        self.flag("entries-at-failure-wrong", format!("entry {}: {}", i, m));
                                    }
                                }
                            }
                        }
                    }
                }
                Err(e)
            }
        }
    }
    fn flush(&mut self) -> io::Result<()> {
        self.stream.flush()
    }
}

fn feed_direct(bytes: &[u8], chunks: &[usize]) -> Result<SummaryStream, String> {
    let mut s = SummaryStream::new();
    let mut pos = 0usize;
    for &c in chunks {
        let c = c.min(bytes.len() - pos);
        match s.write(&bytes[pos..pos + c]) {
            Ok(n) if n == c => {}
            Ok(n) => return Err(format!("write of {} returned Ok({})", c, n)),
            Err(e) => return Err(format!("write at offset {} failed: {}", pos, e)),
        }
        pos += c;
    }
    if pos < bytes.len() {
        let c = bytes.len() - pos;
        match s.write(&bytes[pos..]) {
            Ok(n) if n == c => {}
            Ok(n) => return Err(format!("write of {} returned Ok({})", c, n)),
            Err(e) => return Err(format!("write at offset {} failed: {}", pos, e)),
        }
    }
    Ok(s)
}

impl Property for C09 {
    type Sc = Sc;

    fn id(&self) -> &'static str {
        "C09"
    }
    fn level(&self) -> &'static str {
        "fault_enumeration"
    }
    fn runs(&self, tier: Tier) -> u64 {
        match tier {
            Tier::Quick => 30_000,
            Tier::Thorough => 1_200_000,
        }
    }

    fn generate(&self, rng: &mut Rng, _run: u64, _tier: Tier) -> Sc {
        if rng.chance(1, 120) {
            // a large stream (well over 64 KiB) of many small entries, written in
            // one call, in large chunks, or copied 8 KiB at a time: a real
            // pkg_summary has thousands of entries
            // (one in eight of these has more than 4096 entries)
            let n = if rng.chance(1, 8) { rng.urange(4097, 4200) } else { rng.urange(150, 320) };
            let entries: Vec<Entry> = (0..n)
                .map(|_| {
                    let mut e = gen_entry(rng, false, false);
                    // keep entries small: drop the optional list variables
                    for k in [3usize, 4, 19, 20, 22] {
                        e.remove(&k);
                    }
                    e
                })
                .collect();
            let bad = if rng.chance(1, 4) { Some(gen_bad(rng, &entries)) } else { None };
            let driver = if rng.chance(2, 3) { Driver::Direct } else { Driver::Copy };
            let mut sc = Sc {
                entries,
                bad,
                driver,
                chunks: Vec::new(),
                script: Vec::new(),
                refeed: Vec::new(),
                clone_after: None,
                drain_every: if rng.chance(1, 2) { Some(1) } else { None },
                from_default: false,
                flush_every: None,
                clone_mode: 0,
                twin_entries: Vec::new(),
                twin_chunk: 0,
                sink_fail_at: None,
                migrate: 0,
                vectored: false,
            };
            let len = render(&sc).bytes.len();
            let lens: Vec<usize> = match rng.below(4) {
                0 => Vec::new(),
                1 => vec![65_536; len / 65_536],
                2 => vec![100_000; len / 100_000],
                _ => vec![rng.urange(60_000, 70_000)],
            };
            match driver {
                Driver::Direct => sc.chunks = lens,
                Driver::Copy => sc.script = lens.into_iter().map(ReadStep::Give).collect(),
            }
            return sc;
        }
        let n = match rng.below(8) {
            0 => 1,
            1..=5 => rng.urange(1, 4),
            _ => rng.urange(4, 6),
        };
        let ascii_only = rng.chance(1, 6);
        let long_ok = rng.chance(1, 3);
        let entries: Vec<Entry> = (0..n).map(|_| gen_entry(rng, ascii_only, long_ok)).collect();
        let bad = if rng.chance(1, 3) {
            Some(gen_bad(rng, &entries))
        } else {
            None
        };
        let driver = if rng.chance(1, 2) { Driver::Direct } else { Driver::Copy };
        let mut sc = Sc {
            entries,
            bad,
            driver,
            chunks: Vec::new(),
            script: Vec::new(),
            refeed: Vec::new(),
            clone_after: if rng.chance(1, 5) { Some(rng.urange(1, 6)) } else { None },
            drain_every: if rng.chance(1, 4) { Some(rng.urange(1, 4)) } else { None },
            from_default: rng.chance(1, 4),
            flush_every: if rng.chance(1, 4) { Some(rng.urange(1, 3)) } else { None },
            clone_mode: rng.below(3) as u8,
            twin_entries: Vec::new(),
            twin_chunk: 0,
            sink_fail_at: None,
            migrate: 0,
            vectored: false,
        };
        if rng.chance(1, 4) {
            let k = rng.urange(1, 2);
            sc.twin_entries = (0..k).map(|_| gen_entry(rng, false, false)).collect();
            sc.twin_chunk = *rng.pick(&[1usize, 1, 2, 3, 5, 16]);
        }
        let rend = render(&sc);
        if rng.chance(1, 8) {
            sc.migrate = rng.next_u64() | (1 << 63);
        }
        sc.vectored = rng.chance(1, 6);
        if rng.chance(1, 4) {
            sc.sink_fail_at = Some(if rng.chance(1, 2) { rng.urange(0, 64) } else { rng.urange(0, rend.bytes.len()) });
        }
        match driver {
            Driver::Direct => {
                sc.chunks = gen_partition(rng, &rend.bytes, true);
            }
            Driver::Copy => {
                let lens = gen_partition(rng, &rend.bytes, false);
                sc.script = lens.into_iter().map(ReadStep::Give).collect();
                if rng.chance(1, 3) {
                    let k = rng.urange(1, 3);
                    for _ in 0..k {
                        let at = rng.urange(0, sc.script.len());
                        sc.script.insert(at, ReadStep::Intr);
                    }
                }
                if rng.chance(1, 8) {
                    let at = rng.urange(0, sc.script.len());
                    let k = *rng.pick(&ErrKind::ALL);
                    sc.script.insert(at, if rng.chance(1, 3) { ReadStep::FailForever(k) } else { ReadStep::Fail(k) });
                } else if rng.chance(1, 10) {
                    let at = rng.urange(0, sc.script.len());
                    sc.script.insert(at, ReadStep::Eof);
                }
            }
        }
        sc.refeed = gen_partition(rng, &rend.bytes, true);
        sc
    }

    fn execute(&self, sc: &Sc, ctx: &mut Ctx) -> Outcome {
        if sc.entries.is_empty() {
            return Ok(());
        }
        if let Some(b) = &sc.bad {
            if b.index >= sc.entries.len() {
                return Ok(());
            }
        }
        let rend = render(sc);
        let bytes = &rend.bytes;
        let mut mon = Mon {
            stream: if sc.from_default { SummaryStream::default() } else { SummaryStream::new() },
            drained: Vec::new(),
            sc,
            rend: &rend,
            delivered: 0,
            checked: 0,
            writes: Vec::new(),
            failed: false,
            violation: None,
            probes: Vec::new(),
            work_alloc: 0,
            work_input: 0,
            work_calls: 0,
            work_ratio_milli: 0,
            work_worst: (0, 0),
            keep: Vec::new(),
            twin: None,
            twin_bytes: Vec::new(),
            twin_pos: 0,
            helper: if sc.migrate != 0 && is_send_sync!(SummaryStream) {
                ctx.fault("caller_thread_switch");
                Some(Helper::new())
            } else {
                None
            },
            mask: sc.migrate,
        };
        if !sc.twin_entries.is_empty() {
            ctx.fault("interleaved_objects");
            mon.twin_bytes = render(&Sc {
                entries: sc.twin_entries.clone(),
                bad: None,
                twin_entries: Vec::new(),
                ..sc.clone()
            })
            .bytes;
            mon.twin = Some(SummaryStream::new());
        }
        let mut upstream_fault = false;
        match sc.driver {
            Driver::Direct => {
                let mut pos = 0usize;
                let mut lens: Vec<usize> = Vec::new();
                for &c in &sc.chunks {
                    let c = c.min(bytes.len() - pos);
                    lens.push(c);
                    pos += c;
                }
                if pos < bytes.len() {
                    lens.push(bytes.len() - pos);
                }
                let mut pos = 0usize;
                for c in lens {
                    let r = mon.write(&bytes[pos..pos + c]);
                    pos += c;
                    if r.is_err() {
                        break;
                    }
                }
            }
            Driver::Copy => {
                let mut reader = SimReader::new(bytes.clone(), sc.script.clone());
                let log = reader.log();
                let r = io::copy(&mut reader, &mut mon);
                let log = log.borrow();
                log.absorb(ctx, "upstream-read");
                if log.intr > 0 {
                    ctx.probe("eintr-during-copy");
                }
                if let Some((_, kind)) = log.hard_errors.first() {
                    upstream_fault = true;
                    match &r {
                        Err(e) if e.kind() == kind.to_io() => {}
                        other => {
                            if !mon.failed {
                                fail!(
                                    "upstream-error-lost",
                                    "reader failed with {:?} but io::copy returned {:?}",
                                    kind,
                                    other
                                );
                            }
                        }
                    }
                }
                if log.early_eof_at.is_some() {
                    upstream_fault = true;
                }
            }
        }
        // fold what the Write seam saw into the context
        for (len, ok) in &mon.writes {
            ctx.step("write", *len as u64, *ok as u64);
        }
        if mon.writes.len() > 1 {
            ctx.nontrivial = true;
        }
        if bytes.len() > 65_536 {
            ctx.probe("stream-over-64KiB");
            ctx.nontrivial = true;
            if mon.writes.iter().any(|(l, _)| *l > 65_536) {
                ctx.probe("single-write-over-64KiB");
            }
        }
        for p in &mon.probes {
            ctx.probe(p);
        }
        ctx.lib_alloc += mon.work_alloc;
        ctx.lib_input += mon.work_input;
        ctx.lib_calls += mon.work_calls;
        if mon.work_ratio_milli > ctx.work_ratio_milli {
            ctx.work_ratio_milli = mon.work_ratio_milli;
            ctx.work_worst = mon.work_worst;
        }
        if let Some(b) = &sc.bad {
            ctx.probe(if b.index == 0 {
                "bad-entry-first"
            } else if b.index + 1 == sc.entries.len() {
                "bad-entry-last"
            } else {
                "bad-entry-middle"
            });
            ctx.probe(match b.kind {
                BadKind::NoEquals { .. } => "bad-no-equals",
                BadKind::UnknownVar { .. } => "bad-unknown-var",
                BadKind::BadInt { .. } => "bad-int",
                BadKind::MissingRequired { .. } => "bad-missing-required",
                BadKind::InvalidUtf8 { .. } => "bad-invalid-utf8",
            });
        }
        if let Some(v) = mon.violation.take() {
            return Err(v);
        }
        // the twin: give it the rest of its stream, then it must hold exactly its own entries
        if let Some(mut t) = mon.twin.take() {
            ctx.probe("twin-stream-fed-in-turn");
            if mon.twin_pos < mon.twin_bytes.len() {
                let rest = &mon.twin_bytes[mon.twin_pos..];
                let r = t.write(rest);
                ensure!(
                    matches!(r, Ok(n) if n == rest.len()),
                    "twin-stream-disturbed",
                    "the independent second stream: final write of {} bytes returned {:?}",
                    rest.len(),
                    r.map_err(|e| e.to_string())
                );
            }
            ensure!(
                t.entries().len() == sc.twin_entries.len(),
                "twin-stream-disturbed",
                "the independent second stream collected {} entries from its own {}-entry stream",
                t.entries().len(),
                sc.twin_entries.len()
            );
            ensure!(
                t.to_string().as_bytes() == &mon.twin_bytes[..],
                "twin-stream-disturbed",
                "the independent second stream prints {:?}, its own stream is {:?}",
                t.to_string(),
                String::from_utf8_lossy(&mon.twin_bytes)
            );
        }
        drop(std::mem::take(&mut mon.keep));
        if upstream_fault {
            // deliberate, narrow relaxation: the property is silent about
            // truncated streams; the prefix invariants above were enforced.
            return Ok(());
        }
        match &sc.bad {
            Some(b) => {
                ensure!(
                    mon.failed,
                    "malformed-not-rejected",
                    "the whole stream was delivered but no write failed although entry {} is malformed",
                    b.index
                );
            }
            None => {
                ensure!(
                    mon.delivered == bytes.len(),
                    "harness-undelivered",
                    "harness delivered {} of {} bytes",
                    mon.delivered,
                    bytes.len()
                );
                let got_len = mon.total();
                ensure!(
                    got_len == sc.entries.len(),
                    "entry-count",
                    "stream has {} entries, collected {}",
                    sc.entries.len(),
                    got_len
                );
                for (i, m) in sc.entries.iter().enumerate() {
                    if let Err(e) = compare(mon.entry(i), m) {
                        fail!("entry-mismatch", "entry {}: {}", i, e);
                    }
                }
                // identical to writing the stream in one call
                let one = match feed_direct(bytes, &[]) {
                    Ok(s) => s,
                    Err(e) => fail!("single-write-failed", "{}", e),
                };
                let printed = mon.printed();
                ensure!(
                    one.entries().len() == got_len && one.to_string() == printed,
                    "differs-from-single-write",
                    "chunked delivery collected {} entries, a single write {}",
                    got_len,
                    one.entries().len()
                );
                // printing the collection reproduces the stream
                ensure!(
                    printed.as_bytes() == &bytes[..],
                    "print-differs-from-stream",
                    "printed collection ({} bytes) differs from the stream ({} bytes)",
                    printed.len(),
                    bytes.len()
                );
                // ... also when the text goes to a sink that prints another entry from
                // inside write_str (a nested use of Display on the same thread)
                if !sc.twin_entries.is_empty() && got_len > 0 && mon.drained.is_empty() {
                    struct Sink<'a> {
                        out: String,
                        other: &'a pkgsrc::summary::Summary,
                        inner: Vec<String>,
                    }
                    impl std::fmt::Write for Sink<'_> {
                        fn write_str(&mut self, s: &str) -> std::fmt::Result {
                            if self.inner.len() < 3 {
                                self.inner.push(self.other.to_string());
                            }
                            self.out.push_str(s);
                            Ok(())
                        }
                    }
                    let mut other = pkgsrc::summary::Summary::new();
                    other.set_pkgname("nested-1.0");
                    other.set_comment("printed from inside write_str");
                    other.push_depends("x-[0-9]*");
                    let other_text = other.to_string();
                    let mut sink = Sink {
                        out: String::new(),
                        other: &other,
                        inner: Vec::new(),
                    };
                    use std::fmt::Write as _;
                    let _ = write!(sink, "{}", mon.stream);
                    ctx.probe("printed-through-a-reentrant-sink");
                    ensure!(
                        sink.out.as_bytes() == &bytes[..] && sink.inner.iter().all(|t| *t == other_text),
                        "print-differs-from-stream",
                        "printed through a sink that prints another entry from inside write_str: {} bytes (stream: {} bytes); nested prints {:?}",
                        sink.out.len(),
                        bytes.len(),
                        sink.inner
                    );
                }
                // ... and when an earlier print was abandoned by a sink that reported an
                // error part-way (a closed pipe): the next print is complete and exact
                if let Some(limit) = sc.sink_fail_at {
                    if mon.drained.is_empty() {
                        let mut sink = crate::seams::FailingSink::new(limit.min(bytes.len()));
                        use std::fmt::Write as _;
                        let r = write!(sink, "{}", mon.stream);
                        ctx.fault("sink_error");
                        if r.is_err() {
                            ctx.probe("print-abandoned-by-a-failing-sink");
                        }
                        ensure!(
                            bytes.starts_with(sink.out.as_bytes()) && (r.is_err() || sink.out.as_bytes() == &bytes[..]),
                            "print-differs-from-stream",
                            "a sink that fails after {} bytes received {} bytes that are no prefix of the stream",
                            limit,
                            sink.out.len()
                        );
                        let again = mon.stream.to_string();
                        ensure!(
                            again.as_bytes() == &bytes[..],
                            "print-differs-from-stream",
                            "the print after one abandoned by a failing sink has {} bytes (stream: {} bytes)",
                            again.len(),
                            bytes.len()
                        );
                    }
                }
                // re-feeding the output through another partition gives the same entries
                match feed_direct(printed.as_bytes(), &sc.refeed) {
                    Ok(s2) => {
                        ensure!(
                            s2.entries().len() == got_len && s2.to_string() == printed,
                            "refeed-differs",
                            "re-feeding the printed output in {} chunks gave {} entries (expected {})",
                            sc.refeed.len() + 1,
                            s2.entries().len(),
                            got_len
                        );
                    }
                    Err(e) => fail!("write-failed-on-wellformed", "re-feed of printed output: {}", e),
                }
            }
        }
        Ok(())
    }

    fn shrink(&self, sc: &Sc, emit: &mut dyn FnMut(Sc) -> bool) {
        macro_rules! push {
            ($e:expr) => {
                if emit($e) {
                    return;
                }
            };
        }
        if sc.entries.len() > 8 {
            // a large stream: first get rid of whole blocks of entries (cheap,
            // few candidates); values are only simplified once it is small
            let n = sc.entries.len();
            let bad_idx = sc.bad.as_ref().map(|b| b.index);
            let mut ranges: Vec<(usize, usize)> = vec![(0, n / 2), (n / 2, n)];
            let q = (n / 4).max(1);
            let mut a = 0;
            while a < n {
                ranges.push((a, (a + q).min(n)));
                a += q;
            }
            for i in 0..n.min(24) {
                ranges.push((i, i + 1));
                ranges.push((n - 1 - i, n - i));
            }
            for (a, b) in ranges {
                if let Some(bi) = bad_idx {
                    if bi >= a && bi < b {
                        continue;
                    }
                }
                let mut s = sc.clone();
                s.entries.drain(a..b);
                if let Some(bd) = &mut s.bad {
                    if bd.index >= b {
                        bd.index -= b - a;
                    }
                }
                if !s.entries.is_empty() {
                    push!(s);
                }
            }
            for c in shrink_vec(&sc.chunks) {
                push!(Sc { chunks: c, ..sc.clone() });
            }
            for c in shrink_vec(&sc.script) {
                push!(Sc { script: c, ..sc.clone() });
            }
            return;
        }
        // drop entries
        if sc.entries.len() > 1 {
            for i in 0..sc.entries.len() {
                let mut s = sc.clone();
                s.entries.remove(i);
                match &mut s.bad {
                    Some(b) if b.index == i => continue,
                    Some(b) if b.index > i => b.index -= 1,
                    _ => {}
                }
                push!(s);
            }
        }
        // simplify the schedule
        for c in shrink_vec(&sc.chunks) {
            push!(Sc { chunks: c, ..sc.clone() });
        }
        for c in shrink_vec(&sc.script) {
            push!(Sc { script: c, ..sc.clone() });
        }
        if !sc.refeed.is_empty() {
            push!(Sc { refeed: vec![], ..sc.clone() });
        }
        if sc.clone_after.is_some() {
            push!(Sc { clone_after: None, ..sc.clone() });
        }
        if sc.drain_every.is_some() {
            push!(Sc { drain_every: None, ..sc.clone() });
        }
        if sc.from_default {
            push!(Sc { from_default: false, ..sc.clone() });
        }
        if sc.flush_every.is_some() {
            push!(Sc { flush_every: None, ..sc.clone() });
        }
        if sc.sink_fail_at.is_some() {
            push!(Sc { sink_fail_at: None, ..sc.clone() });
        }
        if sc.migrate != 0 {
            push!(Sc { migrate: 0, ..sc.clone() });
        }
        if sc.vectored {
            push!(Sc { vectored: false, ..sc.clone() });
        }
        if sc.driver == Driver::Copy {
            // same partition through direct writes
            let lens: Vec<usize> = sc
                .script
                .iter()
                .filter_map(|s| if let ReadStep::Give(n) = s { Some(*n) } else { None })
                .collect();
            if lens.len() == sc.script.len() {
                push!(Sc {
                    driver: Driver::Direct,
                    chunks: lens,
                    script: vec![],
                    ..sc.clone()
                });
            }
        }
        // merge adjacent chunks
        for i in 0..sc.chunks.len().saturating_sub(1).min(64) {
            let mut c = sc.chunks.clone();
            c[i] += c[i + 1];
            c.remove(i + 1);
            push!(Sc { chunks: c, ..sc.clone() });
        }
        // drop optional variables, shorten values
        for (ei, e) in sc.entries.iter().enumerate() {
            for (k, v) in e {
                if !VARS[*k].required {
                    let mut s = sc.clone();
                    s.entries[ei].remove(k);
                    push!(s);
                }
                let simpler: Vec<Val> = match v {
                    Val::S(t) if !t.is_empty() => {
                        let mut c = vec![Val::S(String::new())];
                        if t.chars().count() > 1 {
                            let half: String = t.chars().take(t.chars().count() / 2).collect();
                            c.push(Val::S(half));
                            let tail: String = t.chars().skip(t.chars().count() / 2).collect();
                            c.push(Val::S(tail));
                        }
                        if !t.is_ascii() {
                            c.push(Val::S(t.chars().map(|ch| if ch.is_ascii() { ch } else { 'x' }).collect()));
                        }
                        c
                    }
                    Val::I(i) if *i != 0 => vec![Val::I(0)],
                    Val::A(a) if a.len() > 1 || a.iter().any(|t| !t.is_empty()) => {
                        let mut c = Vec::new();
                        if a.len() > 1 {
                            c.push(Val::A(a[..1].to_vec()));
                            c.push(Val::A(a[1..].to_vec()));
                        }
                        c.push(Val::A(a.iter().map(|_| String::new()).collect()));
                        for (li, t) in a.iter().enumerate() {
                            if t.chars().count() > 1 {
                                let mut a2 = a.clone();
                                a2[li] = t.chars().take(t.chars().count() / 2).collect();
                                c.push(Val::A(a2));
                                let mut a3 = a.clone();
                                a3[li] = t.chars().skip(t.chars().count() / 2).collect();
                                c.push(Val::A(a3));
                            }
                        }
                        c
                    }
                    _ => vec![],
                };
                for nv in simpler {
                    if &nv != v {
                        let mut s = sc.clone();
                        s.entries[ei].insert(*k, nv);
                        push!(s);
                    }
                }
            }
        }
        // lower chunk sizes
        for i in 0..sc.chunks.len().min(16) {
            for m in shrink_usize(sc.chunks[i]) {
                let mut c = sc.chunks.clone();
                c[i] = m;
                push!(Sc { chunks: c, ..sc.clone() });
            }
        }
    }

    fn sweep(&self, sc: &Sc, run: u64, tier: Tier) -> Vec<Sc> {
        let every = if tier == Tier::Quick { 16 } else { 64 };
        if run % every != 0 {
            return Vec::new();
        }
        let rend = render(sc);
        if rend.bytes.len() > 700 {
            return Vec::new();
        }
        // (the sweeps stay on one caller thread: they are many and small)
        let base = Sc { migrate: 0, ..sc.clone() };
        let sc = &base;
        // every single-cut position, through direct writes (complete for this stream)
        let mut out: Vec<Sc> = (1..rend.bytes.len())
            .map(|k| Sc {
                driver: Driver::Direct,
                chunks: vec![k],
                script: vec![],
                refeed: vec![],
                ..sc.clone()
            })
            .collect();
        // every fixed chunk size up to 64 (size 1 = byte-at-a-time)
        let len = rend.bytes.len();
        for s in 1..=64usize.min(len.saturating_sub(1)) {
            out.push(Sc {
                driver: Driver::Direct,
                chunks: vec![s; len / s],
                script: vec![],
                refeed: vec![],
                ..sc.clone()
            });
        }
        // every PAIR of cuts, on a shortened copy of the stream (values clipped
        // to three characters, at most two entries) so that the quadratic
        // enumeration stays small; complete for that shortened stream
        let every_pairs = if tier == Tier::Quick { 512 } else { 1024 };
        if run % every_pairs == 0 {
            let mut small = sc.clone();
            small.entries.truncate(2);
            if let Some(b) = &small.bad {
                if b.index >= small.entries.len() {
                    small.bad = None;
                }
            }
            for e in small.entries.iter_mut() {
                for (_, v) in e.iter_mut() {
                    match v {
                        Val::S(t) => *t = t.chars().take(3).collect(),
                        Val::A(a) => {
                            a.truncate(2);
                            for t in a.iter_mut() {
                                *t = t.chars().take(3).collect();
                            }
                        }
                        Val::I(_) => {}
                    }
                }
                // optional variables are dropped
                let keep: Vec<usize> = e.keys().cloned().filter(|k| VARS[*k].required).collect();
                e.retain(|k, _| keep.contains(k));
            }
            if let Some(Bad { kind: BadKind::MissingRequired { .. }, .. }) = &small.bad {
                // still meaningful: the variable is removed at render time
            }
            let r2 = render(&small);
            let n = r2.bytes.len();
            if n <= 420 {
                for a in 1..n {
                    for b in a + 1..n {
                        out.push(Sc {
                            driver: Driver::Direct,
                            chunks: vec![a, b - a],
                            script: vec![],
                            refeed: vec![],
                            ..small.clone()
                        });
                    }
                }
            }
        }
        out
    }

    fn classify(&self, sc: &Sc, v: &Violation) -> String {
        let bad = match &sc.bad {
            None => "wellformed",
            Some(b) => match b.kind {
                BadKind::InvalidUtf8 { .. } => "bad-invalid-utf8",
                _ => "bad-other",
            },
        };
        let cut = if v.detail.contains("cut-inside-multibyte") {
            "cut-inside-multibyte"
        } else {
            "any-cut"
        };
        format!("{}/{}", bad, cut)
    }

    fn work_factor(&self) -> Option<u64> {
        Some(1024)
    }
    fn rule(&self) -> String {
        "Each run draws 1..6 model entries (all required variables, random optional ones, ASCII and 2/3/4-byte \
         UTF-8 values), optionally damages one entry (5 malformation kinds, first/middle/last position), \
         renders the stream and draws a partition into write calls (single/two cuts, fixed sizes incl. 1, random, \
         biased into multi-byte characters / the blank-line separator / after '=', 8 KiB boundaries, zero-length \
         writes), delivered directly or through std::io::copy from a scripted reader with EINTR, hard error or \
         early EOF; in some runs the consumer clones the stream object mid-delivery, drains entries_mut() between writes, or \
         starts from Default. Non-trivial = more than one write call or an upstream fault; distinct = distinct schedule \
         signatures (hash of the sequence of write lengths/outcomes and reader events). For streams of at most \
         700 bytes a subset of runs sweeps every single cut position and every fixed chunk size 1..64, and a smaller \
         subset sweeps every PAIR of cuts of a shortened copy of the stream (sweep_evaluations; each complete for \
         that stream)."
            .to_string()
    }
    fn components_real(&self) -> Vec<&'static str> {
        vec![
            "pkgsrc::summary::SummaryStream (Write impl, entries, Display)",
            "pkgsrc::summary::Summary::from_str and all 23 getters",
            "std::io::copy",
        ]
    }
    fn components_stub(&self) -> Vec<&'static str> {
        vec!["the caller of write (chunk script)", "the upstream reader (SimReader)"]
    }
    fn assumptions(&self) -> Vec<&'static str> {
        vec![
            "streams are canonical prints of model entries; values contain no CR or LF",
            "after an injected upstream hard error or early EOF only the per-write prefix invariants are required",
            "a failing write is accepted as 'in time' from the first write that delivers any byte of the malformed entry up to the write that delivers its terminator",
        ]
    }
    fn expected_probes(&self) -> Vec<&'static str> {
        vec![
            "cut-inside-multibyte",
            "cut-inside-separator",
            "several-entries-in-one-write",
            "carry-over-non-empty-at-write",
            "write-of-zero",
            "eintr-during-copy",
            "bad-entry-first",
            "bad-entry-middle",
            "bad-entry-last",
            "bad-no-equals",
            "bad-unknown-var",
            "bad-int",
            "bad-missing-required",
            "bad-invalid-utf8",
            "stream-over-64KiB",
            "single-write-over-64KiB",
            "stream-cloned-mid-delivery",
            "entries-drained-between-writes",
            "flush-between-writes",
        ]
    }
}
