//! C07 - pkg_summary entries round-trip; the printed form depends only on the
//! current values, never on the history of calls (or on the HashMap's hidden
//! per-instance hash keys, which the simulator owns through the verif-hooks
//! seam).

use crate::framework::*;
use crate::model::*;
use crate::rng::Rng;
use pkgsrc::summary::Summary;
use pkgsrc::verif_hooks::set_hash_seed;
use serde::{Deserialize, Serialize};
use std::str::FromStr;

#[derive(Clone, Debug, Serialize, Deserialize)]
pub enum Op {
    Set { var: usize, val: Val },
    Push { var: usize, line: String },
    /// Replace the object by a clone of itself; then mutate the clone and check
    /// the original did not change.
    Clone { seed: u64 },
    /// Print and compare with the model's canonical print.
    Print,
    /// Print, parse the text back (under a new hash seed), compare, carry on with the parsed value.
    Reparse { seed: u64 },
    /// Another Summary object holding `other` is overwritten with clone_from();
    /// carry on with it.
    CloneFrom { seed: u64, other: Vec<(usize, Val)> },
    /// Like Reparse, but the text travels through a SummaryStream (the second
    /// public parsing route) in the given chunks.
    ReparseViaStream { seed: u64, chunks: Vec<usize> },
    /// Print, then `count` value-changing calls on the same object (a counter of
    /// calls may be narrow), then print again: 255, 256, 65535, 65536, 65537 ...
    Burst { count: u32 },
}

#[derive(Clone, Debug, Serialize, Deserialize)]
pub struct Hist {
    pub seed: u64,
    pub ops: Vec<Op>,
    /// 0: one caller thread.  Otherwise operation i of this history is carried out by a
    /// second thread when bit i mod 63 is set.
    #[serde(default)]
    pub migrate: u64,
}

#[derive(Clone, Debug, Serialize, Deserialize)]
pub struct Sc {
    pub hists: Vec<Hist>,
}

pub struct C07;

const LIST_VARS: [usize; 6] = [3, 4, 5, 19, 20, 22];

fn gen_free_history(rng: &mut Rng) -> Hist {
    let n = rng.urange(1, 60);
    let ascii = rng.chance(1, 5);
    let mut ops = Vec::new();
    // swarm: which op kinds are enabled this run
    let push_rate = *rng.pick(&[0u64, 2, 6]);
    let meta_rate = *rng.pick(&[0u64, 1, 3]);
    for _ in 0..n {
        let r = rng.below(16);
        if r < push_rate {
            ops.push(Op::Push {
                var: *rng.pick(&LIST_VARS),
                line: gen_text(rng, ascii, false),
            });
        } else if r < push_rate + meta_rate {
            ops.push(match rng.below(5) {
                0 if rng.chance(1, 12) => Op::Burst {
                    count: *rng.pick(&[255u32, 256, 257, 65_535, 65_536, 65_537, 131_072]),
                },
                0 => Op::Clone { seed: rng.next_u64() },
                1 => Op::Print,
                2 => Op::Reparse { seed: rng.next_u64() },
                3 => {
                    let k = rng.urange(0, 5);
                    let other = (0..k)
                        .map(|_| {
                            let v = rng.usize_below(23);
                            (v, gen_val(rng, v, ascii, false))
                        })
                        .collect();
                    Op::CloneFrom { seed: rng.next_u64(), other }
                }
                _ => Op::ReparseViaStream {
                    seed: rng.next_u64(),
                    chunks: (0..rng.urange(0, 4)).map(|_| rng.urange(1, 200)).collect(),
                },
            });
        } else {
            let var = if rng.chance(1, 2) {
                // bias towards required variables so that complete states occur
                let req: Vec<usize> = (0..23).filter(|i| VARS[*i].required).collect();
                *rng.pick(&req)
            } else {
                rng.usize_below(23)
            };
            if VARS[var].kind == Kind::S && rng.chance(1, 8) {
                // a value replaced by a close relative of itself: the two agree for 8..33
                // characters (or all but the last) and then part; the second is shorter,
                // equally long or longer (a corrected date, another file below the same URL;
                // a setter that compares only a prefix or reuses the old buffer shows here;
                // wave 17, C07-54)
                let first = format!(
                    "{}{}",
                    rng.pick_str(&[
                        "https://www.example.org/downloads/",
                        "2024-01-01 12:00:00 +0000 ",
                        "category/package-name-with-a-long-",
                        "0123456789abcdef0123456789abcdef",
                        "",
                    ]),
                    gen_text(rng, ascii, false)
                );
                let chars: Vec<char> = first.chars().collect();
                let keep = (*rng.pick(&[8usize, 15, 16, 17, 24, 31, 32, 33, usize::MAX])).min(chars.len().saturating_sub(1));
                let mut second: String = chars[..keep].iter().collect();
                second.push_str(rng.pick_str(&["X", "release/2.0.tar.gz", "zz", ""]));
                if rng.chance(1, 2) {
                    let want = chars.len() + rng.urange(0, 3);
                    while second.chars().count() < want {
                        second.push('y');
                    }
                }
                ops.push(Op::Set { var, val: Val::S(first) });
                if rng.chance(1, 4) {
                    ops.push(Op::Print);
                }
                ops.push(Op::Set { var, val: Val::S(second) });
                continue;
            }
            let long_ok = rng.chance(1, 10);
            ops.push(Op::Set {
                var,
                val: gen_val(rng, var, ascii, long_ok),
            });
        }
    }
    if rng.chance(1, 2) {
        ops.push(Op::Reparse { seed: rng.next_u64() });
    }
    Hist {
        seed: rng.next_u64(),
        ops,
        migrate: if rng.chance(1, 8) { rng.next_u64() | (1 << 63) } else { 0 },
    }
}

/// Derive a history that reaches exactly `target`.
fn gen_history_for(rng: &mut Rng, target: &Entry, style: u64) -> Hist {
    let mut ops: Vec<Op> = Vec::new();
    let mut vars: Vec<usize> = target.keys().cloned().collect();
    if style != 0 {
        rng.shuffle(&mut vars);
    }
    for v in &vars {
        let val = target.get(v).unwrap().clone();
        // detour: a value that is later overwritten
        if style != 0 && rng.chance(1, 3) {
            ops.push(Op::Set {
                var: *v,
                val: gen_val(rng, *v, false, false),
            });
            if VARS[*v].kind == Kind::A && rng.chance(1, 2) {
                ops.push(Op::Push {
                    var: *v,
                    line: gen_text(rng, false, false),
                });
            }
        }
        match (&val, style) {
            (Val::A(lines), s) if s != 0 && rng.chance(1, 2) => {
                // the list arrives as set(first k) + pushes, or as pushes only
                // (pushes only is possible when nothing was set before)
                let already = ops.iter().any(|o| match o {
                    Op::Set { var, .. } | Op::Push { var, .. } => var == v,
                    _ => false,
                });
                let k = if already { rng.urange(1, lines.len()) } else { rng.urange(0, lines.len()) };
                if k > 0 {
                    ops.push(Op::Set {
                        var: *v,
                        val: Val::A(lines[..k].to_vec()),
                    });
                }
                for l in &lines[k..] {
                    ops.push(Op::Push { var: *v, line: l.clone() });
                }
            }
            _ => ops.push(Op::Set { var: *v, val }),
        }
        if style != 0 && rng.chance(1, 6) {
            ops.push(match rng.below(3) {
                0 => Op::Print,
                1 => Op::Clone { seed: rng.next_u64() },
                _ => Op::Print,
            });
        }
    }
    // repetition of a call with the same value
    if style != 0 && rng.chance(1, 3) && !vars.is_empty() {
        let v = *rng.pick(&vars);
        ops.push(Op::Set {
            var: v,
            val: target.get(&v).unwrap().clone(),
        });
    }
    if rng.chance(1, 2) {
        ops.push(Op::Reparse { seed: rng.next_u64() });
    }
    Hist {
        seed: rng.next_u64(),
        ops,
        migrate: if rng.chance(1, 8) { rng.next_u64() | (1 << 63) } else { 0 },
    }
}

struct Final {
    model: Entry,
    print: String,
    debug: String,
}

fn run_history(h: &Hist, hi: usize, ctx: &mut Ctx) -> Result<Final, Violation> {
    set_hash_seed(h.seed);
    ctx.fault("hostile_hash_seed");
    // half of the histories start from Default, the other constructor
    let mut sum = if h.seed % 2 == 0 { Summary::default() } else { Summary::new() };
    let mut model = Entry::new();
    let mut distinct_before = 0usize;
    // a second caller thread for this history, when asked for and when a user could
    // move a Summary between threads too: operation number i is then carried out by
    // it when bit i mod 63 of the mask is set (the value is set on one thread,
    // printed or parsed on the other)
    let helper: Option<Helper> = if h.migrate != 0 && is_send_sync!(Summary) {
        ctx.fault("caller_thread_switch");
        Some(Helper::new())
    } else {
        None
    };
    for (oi, op) in h.ops.iter().enumerate() {
        let step: Outcome = on_thread!(helper, h.migrate, oi, (|| -> Outcome {
        match op {
            Op::Set { var, val } => {
                ctx.step("set", *var as u64, 0);
                if model.get(var) == Some(val) {
                    ctx.fault("duplicate_call");
                } else if model.contains_key(var) {
                    ctx.fault("overwrite");
                }
                if model.contains_key(var) {
                    ctx.probe(if matches!(model.get(var), Some(Val::A(_))) && VARS[*var].kind == Kind::A {
                        "set-after-push-or-set"
                    } else {
                        "overwritten-set"
                    });
                }
                match val {
                    Val::S(s) if s.is_empty() => ctx.probe("empty-string-value"),
                    Val::S(s) if s.contains('=') => ctx.probe("value-with-equals"),
                    Val::I(i) if *i < 0 => ctx.probe("negative-size"),
                    _ => {}
                }
                real_set(&mut sum, *var, val);
                model.insert(*var, val.clone());
            }
            Op::Push { var, line } => {
                ctx.step("push", *var as u64, 0);
                if model.contains_key(var) {
                    ctx.probe("push-after-set");
                } else {
                    ctx.fault("split_set_into_pushes");
                }
                real_push(&mut sum, *var, line);
                match model.get_mut(var) {
                    Some(Val::A(a)) => a.push(line.clone()),
                    _ => {
                        model.insert(*var, Val::A(vec![line.clone()]));
                    }
                }
            }
            Op::Clone { seed } => {
                ctx.step("clone", 0, 0);
                set_hash_seed(*seed);
                ctx.fault("clone_under_other_seed");
                let orig = sum.clone();
                // mutate `sum` (the one we carry on with), then check `orig`
                let before = model.clone();
                real_push(&mut sum, 3, "clone-probe");
                real_set(&mut sum, 2, &Val::S("clone-probe".into()));
                if let Err(e) = compare(&orig, &before) {
                    fail!(
                        "clone-not-independent",
                        "history {} op {}: after mutating a clone the original changed: {}",
                        hi,
                        oi,
                        e
                    );
                }
                ctx.probe("clone-diverged");
                // both objects are alive and have diverged: printed in turn, each
                // must print its own values (a shared print cache would not)
                let mut after = before.clone();
                match after.get_mut(&3) {
                    Some(Val::A(a)) => a.push("clone-probe".to_string()),
                    _ => {
                        after.insert(3, Val::A(vec!["clone-probe".to_string()]));
                    }
                }
                after.insert(2, Val::S("clone-probe".into()));
                let order: [bool; 3] = if seed % 2 == 0 { [true, false, true] } else { [false, true, false] };
                for first in order {
                    let (got, want, who) = if first {
                        (sum.to_string(), print_entry(&after), "the changed clone")
                    } else {
                        (orig.to_string(), print_entry(&before), "the original")
                    };
                    ensure!(
                        got == want,
                        "print-mismatch",
                        "history {} op {}: a value and its clone printed in turn: {} printed {:?}, its own values print as {:?}",
                        hi,
                        oi,
                        who,
                        got,
                        want
                    );
                }
                // carry on with the untouched original
                sum = orig;
            }
            Op::Burst { count } => {
                ctx.step("burst", *count as u64, 0);
                ctx.probe("burst-of-calls-between-prints");
                let before = sum.to_string();
                ensure!(
                    before == print_entry(&model),
                    "print-mismatch",
                    "history {} op {}: printed {:?} before a burst of calls",
                    hi,
                    oi,
                    before
                );
                // COMMENT (variable 2) alternates between two texts, count times
                for k in 0..*count {
                    sum.set_comment(if k % 2 == 0 { "burst-a" } else { "burst-b" });
                }
                if *count > 0 {
                    model.insert(2, Val::S(if (*count - 1) % 2 == 0 { "burst-a".into() } else { "burst-b".into() }));
                }
                let got = sum.to_string();
                let want = print_entry(&model);
                ensure!(
                    got == want,
                    "print-mismatch",
                    "history {} op {}: after {} set_comment calls on the same object it printed {:?}, canonical print of the current values is {:?}",
                    hi,
                    oi,
                    count,
                    got,
                    want
                );
            }
            Op::Print => {
                ctx.step("print", 0, 0);
                if oi % 3 == 0 {
                    // printed through a sink that itself prints another entry from
                    // inside write_str (a report writer that expands references):
                    // a nested use of Display on the same thread
                    ctx.probe("print-through-a-reentrant-sink");
                    struct Sink<'a> {
                        out: String,
                        other: &'a Summary,
                        inner: Vec<String>,
                    }
                    impl std::fmt::Write for Sink<'_> {
                        fn write_str(&mut self, s: &str) -> std::fmt::Result {
                            if self.inner.len() < 3 {
                                self.inner.push(self.other.to_string());
                            }
                            self.out.push_str(s);
                            Ok(())
                        }
                    }
                    let mut other = Summary::new();
                    other.set_pkgname("nested-1.0");
                    other.set_comment("printed from inside write_str");
                    other.push_depends("x-[0-9]*");
                    other.set_size_pkg(7);
                    let other_text = other.to_string();
                    let mut sink = Sink {
                        out: String::new(),
                        other: &other,
                        inner: Vec::new(),
                    };
                    use std::fmt::Write as _;
                    let _ = write!(sink, "{}", sum);
                    let want = print_entry(&model);
                    ensure!(
                        sink.out == want,
                        "print-mismatch",
                        "history {} op {}: printed through a sink that prints another entry from inside write_str: got {:?}, canonical print is {:?}",
                        hi,
                        oi,
                        sink.out,
                        want
                    );
                    ensure!(
                        sink.inner.iter().all(|t| *t == other_text),
                        "print-mismatch",
                        "history {} op {}: the entry printed from inside write_str came out as {:?}, alone it prints {:?}",
                        hi,
                        oi,
                        sink.inner,
                        other_text
                    );
                }
                if oi % 3 == 2 {
                    // printed through placeholders with a width, a precision, a sign or zero
                    // padding: the entry is a document, not a number - its lines do not depend
                    // on the placeholder (otherwise the text would not parse back to the values)
                    let want = print_entry(&model);
                    for (spec, got) in [
                        ("{:>24}", format!("{:>24}", sum)),
                        ("{:<16}", format!("{:<16}", sum)),
                        ("{:.3}", format!("{:.3}", sum)),
                        ("{:+}", format!("{:+}", sum)),
                        ("{:012}", format!("{:012}", sum)),
                        ("{:#}", format!("{:#}", sum)),
                    ] {
                        ctx.probe("printed-with-a-format-spec");
                        ensure!(
                            got == want,
                            "print-mismatch",
                            "history {} op {}: printed through {:?} it gives {:?}, the canonical print is {:?}",
                            hi,
                            oi,
                            spec,
                            got,
                            want
                        );
                    }
                }
                if oi % 3 == 1 {
                    // printed into a sink that reports an error part-way (a closed pipe);
                    // what it took is a prefix of the canonical print, and the ordinary
                    // print that follows is not disturbed by the abandoned one
                    let want = print_entry(&model);
                    let limit = (oi * 7 + hi * 3) % (want.len() + 1);
                    let mut sink = crate::seams::FailingSink::new(limit);
                    use std::fmt::Write as _;
                    let r = write!(sink, "{}", sum);
                    ctx.fault("sink_error");
                    if r.is_err() {
                        ctx.probe("print-abandoned-by-a-failing-sink");
                    }
                    ensure!(
                        want.starts_with(&sink.out) && (r.is_err() || sink.out == want),
                        "print-mismatch",
                        "history {} op {}: a sink that fails after {} bytes received {:?}, which is no prefix of the canonical print {:?}",
                        hi,
                        oi,
                        limit,
                        sink.out,
                        want
                    );
                }
                let got = sum.to_string();
                let want = print_entry(&model);
                ensure!(
                    got == want,
                    "print-mismatch",
                    "history {} op {}: printed {:?}, canonical print of the current values is {:?}",
                    hi,
                    oi,
                    got,
                    want
                );
            }
            Op::CloneFrom { seed, other } => {
                ctx.step("clone_from", other.len() as u64, 0);
                ctx.probe("clone_from-onto-another-object");
                set_hash_seed(*seed);
                let mut target = Summary::new();
                for (v, val) in other {
                    if *v < 23 {
                        let ok = matches!(
                            (VARS[*v].kind, val),
                            (Kind::S, Val::S(_)) | (Kind::I, Val::I(_)) | (Kind::A, Val::A(_))
                        );
                        if ok {
                            real_set(&mut target, *v, val);
                        }
                    }
                }
                target.clone_from(&sum);
                sum = target;
            }
            Op::ReparseViaStream { seed, chunks } => {
                ctx.step("reparse-via-stream", chunks.len() as u64, 0);
                let lists_nonempty = model.values().all(|v| !matches!(v, Val::A(a) if a.is_empty()));
                if is_complete(&model) && lists_nonempty {
                    ctx.probe("reparse-via-stream-of-complete-entry");
                    let text = format!("{}\n", sum).into_bytes();
                    set_hash_seed(*seed);
                    let mut st = pkgsrc::summary::SummaryStream::new();
                    let mut pos = 0usize;
                    use std::io::Write as _;
                    for c in chunks.iter().cloned().chain(std::iter::once(usize::MAX)) {
                        let c = c.min(text.len() - pos);
                        if let Err(e) = st.write(&text[pos..pos + c]) {
                            fail!(
                                "reparse-failed",
                                "history {} op {}: the printed complete entry does not pass through SummaryStream: {}",
                                hi,
                                oi,
                                e
                            );
                        }
                        pos += c;
                        if pos >= text.len() {
                            break;
                        }
                    }
                    ensure!(
                        st.entries().len() == 1,
                        "reparse-failed",
                        "history {} op {}: one printed entry gave {} entries through SummaryStream",
                        hi,
                        oi,
                        st.entries().len()
                    );
                    if let Err(e) = compare(&st.entries()[0], &model) {
                        fail!(
                            "reparse-mismatch",
                            "history {} op {}: print then parse through SummaryStream changed a value: {}",
                            hi,
                            oi,
                            e
                        );
                    }
                    sum = st.entries()[0].clone();
                }
            }
            Op::Reparse { seed } => {
                ctx.step("reparse", 0, 0);
                let lists_nonempty = model.values().all(|v| !matches!(v, Val::A(a) if a.is_empty()));
                if is_complete(&model) && lists_nonempty {
                    ctx.probe("reparse-of-complete-entry");
                    let __w = Work::start(); let text = sum.to_string(); __w.stop(ctx, text.len() + 256);
                    set_hash_seed(*seed);
                    if seed % 2 == 0 {
                        // an earlier parse on this thread that is rejected AFTER it has
                        // read lines of multi-line variables: nothing of it may reach
                        // the next parse
                        ctx.probe("rejected-parse-before-the-next-one");
                        let doomed = "DEPENDS=stale-[0-9]*\nCONFLICTS=stale-conflict\nDESCRIPTION=stale line\nPROVIDES=stale.so\nREQUIRES=stale.so\nSUPERSEDES=stale\nFILE_SIZE=not-a-number\n";
                        ensure!(
                            Summary::from_str(doomed).is_err(),
                            "reparse-failed",
                            "history {} op {}: an entry with a non-numeric FILE_SIZE parsed",
                            hi,
                            oi
                        );
                    }
                    match metered!(ctx, text.len(), Summary::from_str(&text)) {
                        Ok(parsed) => {
                            if let Err(e) = compare(&parsed, &model) {
                                fail!(
                                    "reparse-mismatch",
                                    "history {} op {}: print then parse changed a value: {}",
                                    hi,
                                    oi,
                                    e
                                );
                            }
                            let again = parsed.to_string();
                            ensure!(
                                again == text,
                                "reprint-mismatch",
                                "history {} op {}: parse then print of {:?} gave {:?}",
                                hi,
                                oi,
                                text,
                                again
                            );
                            sum = parsed;
                        }
                        Err(e) => fail!(
                            "reparse-failed",
                            "history {} op {}: printed complete entry does not parse: {} / text {:?}",
                            hi,
                            oi,
                            e,
                            text
                        ),
                    }
                }
            }
        }
        // after every operation: all getters agree with the model
        if let Err(e) = compare(&sum, &model) {
            fail!("getter-mismatch", "history {} after op {} ({:?}): {}", hi, oi, op, e);
        }
        let d = model.len();
        if d != distinct_before {
            // std HashMap grows at 3, 7, 14 live entries
            if (distinct_before <= 3 && d > 3) || (distinct_before <= 7 && d > 7) || (distinct_before <= 14 && d > 14) {
                ctx.probe("rehash-happened");
                ctx.fault("rehash");
            }
            distinct_before = d;
        }
        Ok(())
        })());
        step?;
    }
    let (print, debug) = on_thread!(helper, h.migrate, 62u64, (sum.to_string(), format!("{:?}", sum)));
    Ok(Final { print, debug, model })
}

impl Property for C07 {
    type Sc = Sc;

    fn id(&self) -> &'static str {
        "C07"
    }
    fn level(&self) -> &'static str {
        "exploration"
    }
    fn runs(&self, tier: Tier) -> u64 {
        match tier {
            Tier::Quick => 30_000,
            Tier::Thorough => 6_000_000,
        }
    }

    fn generate(&self, rng: &mut Rng, _run: u64, _tier: Tier) -> Sc {
        if rng.chance(1, 3) {
            return Sc {
                hists: vec![gen_free_history(rng)],
            };
        }
        // equivalent histories reaching one target assignment
        let ascii = rng.chance(1, 5);
        let long_ok = rng.chance(1, 10);
        let target = if rng.chance(3, 4) {
            gen_entry(rng, ascii, long_ok)
        } else {
            // arbitrary (possibly incomplete) subset
            let mut e = Entry::new();
            for i in 0..23 {
                if rng.chance(1, 3) {
                    e.insert(i, gen_val(rng, i, ascii, false));
                }
            }
            e
        };
        let k = rng.urange(2, 3);
        let mut hists = vec![gen_history_for(rng, &target, 0)];
        for _ in 1..k {
            hists.push(gen_history_for(rng, &target, 1));
        }
        if rng.chance(1, 4) {
            // same history, different hash seed only
            let mut h = hists[1].clone();
            h.seed = rng.next_u64();
            hists.push(h);
        }
        Sc { hists }
    }

    fn execute(&self, sc: &Sc, ctx: &mut Ctx) -> Outcome {
        let mut finals: Vec<Final> = Vec::new();
        for (hi, h) in sc.hists.iter().enumerate() {
            ctx.event("history", hi as u64, h.seed);
            ctx.sched = crate::rng::mix(ctx.sched, h.seed);
            finals.push(run_history(h, hi, ctx)?);
        }
        set_hash_seed(0);
        if sc.hists.iter().map(|h| h.ops.len()).sum::<usize>() > 1 {
            ctx.nontrivial = true;
        }
        // equivalent histories (equal final values in the model) must print
        // byte-identical text whatever their hash seeds
        for i in 0..finals.len() {
            for j in i + 1..finals.len() {
                if finals[i].model == finals[j].model {
                    ctx.probe("equivalent-history-pair");
                    if finals[i].debug != finals[j].debug {
                        ctx.probe("internal-order-differs-between-histories");
                    }
                    ensure!(
                        finals[i].print == finals[j].print,
                        "print-depends-on-history",
                        "histories {} and {} reach the same values but print {:?} vs {:?}",
                        i,
                        j,
                        finals[i].print,
                        finals[j].print
                    );
                }
            }
        }
        for (i, f) in finals.iter().enumerate() {
            let want = print_entry(&f.model);
            ensure!(
                f.print == want,
                "print-mismatch",
                "history {}: final print {:?}, canonical print of the values is {:?}",
                i,
                f.print,
                want
            );
        }
        Ok(())
    }

    fn shrink(&self, sc: &Sc, emit: &mut dyn FnMut(Sc) -> bool) {
        macro_rules! push {
            ($e:expr) => {
                if emit($e) {
                    return;
                }
            };
        }
        if sc.hists.len() > 1 {
            for i in 0..sc.hists.len() {
                let mut h = sc.hists.clone();
                h.remove(i);
                push!(Sc { hists: h });
            }
        }
        for (hi, h) in sc.hists.iter().enumerate() {
            for ops in shrink_vec(&h.ops) {
                let mut s = sc.clone();
                s.hists[hi].ops = ops;
                push!(s);
            }
            if h.seed != 0 {
                let mut s = sc.clone();
                s.hists[hi].seed = 0;
                push!(s);
            }
            for (oi, op) in h.ops.iter().enumerate().take(40) {
                let simpler: Vec<Op> = match op {
                    Op::Set { var, val } => match val {
                        Val::S(t) if !t.is_empty() => vec![
                            Op::Set { var: *var, val: Val::S(String::new()) },
                            Op::Set { var: *var, val: Val::S("a".into()) },
                        ],
                        Val::I(i) if *i != 0 => vec![Op::Set { var: *var, val: Val::I(0) }],
                        Val::A(a) if a.len() > 1 || a.iter().any(|t| t.len() > 1) => vec![
                            Op::Set { var: *var, val: Val::A(a[..1].to_vec()) },
                            Op::Set {
                                var: *var,
                                val: Val::A(a.iter().enumerate().map(|(i, _)| format!("{}", i)).collect()),
                            },
                        ],
                        _ => vec![],
                    },
                    Op::Push { var, line } if line.len() > 1 => vec![Op::Push { var: *var, line: "p".into() }],
                    Op::Reparse { .. } => vec![Op::Print],
                    Op::ReparseViaStream { seed, .. } => vec![Op::Reparse { seed: *seed }],
                    Op::CloneFrom { seed, other } if !other.is_empty() => vec![Op::CloneFrom { seed: *seed, other: vec![] }],
                    _ => vec![],
                };
                for n in simpler {
                    let mut s = sc.clone();
                    s.hists[hi].ops[oi] = n;
                    push!(s);
                }
            }
        }
    }

    fn classify(&self, _sc: &Sc, _v: &Violation) -> String {
        String::new()
    }

    fn work_factor(&self) -> Option<u64> {
        Some(512)
    }
    fn rule(&self) -> String {
        "One third of the runs execute a free-form history of 1..60 set/push/clone/print/reparse calls over all 23 \
         variables; two thirds draw a target assignment and derive 2..4 different histories that reach it (canonical \
         order; permuted order with overwritten detours, set replaced by set+pushes or pushes only, repeated calls, \
         interleaved prints/clones; or the same history under another hash seed), each executed under its own \
         simulator-chosen hash seed. Every getter is compared with the reference model after every operation. \
         Non-trivial = more than one operation in total; distinct = distinct schedule signatures (hash of the sequence \
         of (operation kind, variable) steps and of the hash seeds)."
            .to_string()
    }
    fn components_real(&self) -> Vec<&'static str> {
        vec![
            "pkgsrc::summary::Summary: set_*/push_*, all 23 getters, is_completed, Display, FromStr, Clone",
            "std HashMap with the seed-controlled BuildHasher (verif-hooks)",
        ]
    }
    fn components_stub(&self) -> Vec<&'static str> {
        vec!["the hash keys of Summary's HashMap (SimBuildHasher replaces RandomState)"]
    }
    fn assumptions(&self) -> Vec<&'static str> {
        vec![
            "values contain no CR or LF; lists given to set_* are non-empty",
            "the fixed pkg_summary order is the order of the variable list in pkg_summary(5) as used by the crate's own fixture (BUILD_DATE ... SUPERSEDES)",
        ]
    }
    fn expected_probes(&self) -> Vec<&'static str> {
        vec![
            "rehash-happened",
            "overwritten-set",
            "push-after-set",
            "set-after-push-or-set",
            "clone-diverged",
            "empty-string-value",
            "value-with-equals",
            "negative-size",
            "reparse-of-complete-entry",
            "equivalent-history-pair",
            "internal-order-differs-between-histories",
            "clone_from-onto-another-object",
            "reparse-via-stream-of-complete-entry",
        ]
    }
}
