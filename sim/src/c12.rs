//! C12 - checksum and size verification passes only for files that really
//! match.  The simulator owns the stored files and the recorded distinfo:
//! storage faults are applied between verification rounds and every verdict
//! is compared with one computed from the model bytes by independent digests.

use crate::c13::{gen_bytes, gen_patch};
use crate::disk::SimDisk;
use crate::framework::*;
use crate::refdigest::*;
use crate::rng::Rng;
use crate::seams::esc;
use pkgsrc::distinfo::{Checksum, Distinfo, DistinfoError, Entry, EntryType};
use serde::{Deserialize, Serialize};
use std::path::Path;

#[derive(Clone, Debug, Serialize, Deserialize)]
pub struct FileSpec {
    /// name as recorded in distinfo (may have DIST_SUBDIR components)
    pub name: String,
    #[serde(with = "esc")]
    pub content: Vec<u8>,
    /// recorded algorithms, in order (no algorithm twice)
    pub algs: Vec<usize>,
    /// record a Size line (patch files only when the record is rendered by the harness)
    pub size: bool,
    /// harness-rendered record: the Size line comes before the checksum lines
    #[serde(default)]
    pub size_first: bool,
    /// API-built record: a decoy entry for the same name (all six algorithms,
    /// wrong hashes, wrong size) is inserted first; the real insert must replace it
    #[serde(default)]
    pub decoy_first: bool,
    /// the stored path is a symbolic link to the content kept elsewhere (a
    /// DISTDIR of links): every verdict is about the file the link leads to
    #[serde(default)]
    pub via_symlink: bool,
}

#[derive(Clone, Debug, Serialize, Deserialize)]
pub enum Fault {
    BitFlip { file: usize, off: usize, bit: u8 },
    ByteSet { file: usize, off: usize, v: u8 },
    Truncate { file: usize, n: usize },
    Extend {
        file: usize,
        #[serde(with = "esc")]
        bytes: Vec<u8>,
    },
    ZeroFill { file: usize, off: usize, len: usize },
    ReplaceSameLen { file: usize, salt: u8 },
    Delete { file: usize },
    Swap { a: usize, b: usize },
    /// change one hex digit of the recorded hash
    CorruptHash { file: usize, alg: usize, pos: usize },
    /// record only a prefix of the hash
    TruncateHash { file: usize, alg: usize, keep: usize },
    /// append a hex digit to the recorded hash
    ExtendHash { file: usize, alg: usize },
    /// the recorded hash with the case of one hex letter flipped (a single-byte
    /// corruption: bit 0x20), or upper-cased as a whole
    #[serde(rename = "CaseFlipHash")]
    CaseFlipHash { file: usize, alg: usize, pos: usize, whole: bool },
    CorruptSize { file: usize, delta: i64 },
    DropChecksum { file: usize, alg: usize },
    DropSize { file: usize },
    /// benign for patch files: rewrite / add / remove a line containing $NetBSD
    RewriteNetbsdLine { file: usize, how: u8 },
    /// benign for patch files: final newline removed / added
    StripFinalNewline { file: usize },
    AddFinalNewline { file: usize },
    /// not benign: change a line that does not contain $NetBSD
    ChangeOtherLine { file: usize },
}

#[derive(Clone, Debug, Serialize, Deserialize)]
pub struct Sc {
    pub files: Vec<FileSpec>,
    /// build the record through calculate_* / Entry::new / insert / as_bytes
    pub via_api: bool,
    pub faults: Vec<Fault>,
    /// extra lookup paths for find_entry (pure lookups, no file access)
    pub lookups: Vec<String>,
    /// via_api only: verify with the Distinfo that was built by insert() itself
    /// instead of a re-parsed copy of its as_bytes()
    #[serde(default)]
    pub direct: bool,
    /// two more live Distinfo values used in turn with the one under test: an
    /// unrelated record (the same names in another order, plus the names that
    /// the one under test does not record), and a clone into which shorter
    /// tails were inserted afterwards.  Each must answer from its own record.
    #[serde(default)]
    pub twin: bool,
    /// a neighbour's call on the same thread before the record is built or used:
    /// a digest of a stream whose reader delivers part of a line and then fails.
    /// What such a call leaves behind must not reach the verification.
    #[serde(default)]
    pub neighbour: Option<Neighbour>,
    /// 0: one caller thread.  Otherwise a second caller thread exists and the record is
    /// parsed (bit 0) and each verification call number i made by it when bit i mod 63
    /// is set: the record is built on one thread and used on the other
    #[serde(default)]
    pub migrate: u64,
}

#[derive(Clone, Debug, Serialize, Deserialize)]
pub struct Neighbour {
    pub patch: bool,
    pub alg: usize,
    pub data: Vec<u8>,
    pub give: usize,
    pub kind: crate::seams::ErrKind,
}

pub struct C12;

const DIST_NAMES: [&str; 19] = [
    "caf\u{f8e9}-1.0.tgz",
    "l\u{f8e9}gacy/f.tgz",
    "l\u{f8e9}gacy/caf\u{f8e9}.bin",
    "f.tgz",
    "a/f.tgz",
    "b/a/f.tgz",
    "c/b/a/f.tgz",
    "foo-1.0.tar.gz",
    "sub/foo-1.0.tar.gz",
    "patch-2.7.6.tar.xz",
    "patch-local-foo",
    "patch-aa.orig",
    "patch-ab.rej",
    "patch-ac~",
    "emul-linux-foo.tgz",
    "data.bin",
    "sub/data.bin",
    "x/patch-2.7.6.tar.xz",
    "README",
];
const PATCH_NAMES: [&str; 9] = [
    "patch-caf\u{f8e9}",
    "patch-aa",
    "patch-Makefile",
    "patch-src_main.c",
    "emul-linux-patch-ab",
    "sub/patch-aa",
    "patch-configure.ac",
    "emul-x-patch-y",
    "deep/er/patch-aa",
];
const UNRECORDED: [&str; 8] = [
    "nothere.tgz",
    "patch-nothere",
    "xf.tgz",
    "tgz",
    "a",
    "patch-aa.orig.orig",
    "f.tgz.sig",
    "sub",
];

/// Model classifier, written from the property text (C11/C12): patch-* and
/// emul-*-patch-*, except patch-local-*, *.orig, *.rej, *~ and names
/// containing ".tar.".
fn model_is_patch(name: &str) -> bool {
    let base = name.rsplit('/').next().unwrap_or(name);
    if base.starts_with("patch-local-") || base.ends_with(".orig") || base.ends_with(".rej") || base.ends_with('~') {
        return false;
    }
    if base.contains(".tar.") {
        return false;
    }
    base.starts_with("patch-") || (base.starts_with("emul-") && base.contains("-patch-"))
}

fn comps(p: &str) -> Vec<&str> {
    p.split('/').filter(|s| !s.is_empty()).collect()
}

/// Shortest recorded trailing sub-path of `path` among the recorded names of
/// the same kind (distfile / patch) as the path's last component.
fn model_find<'a>(recorded: &'a [String], path: &str) -> Option<&'a String> {
    let pc = comps(path);
    if pc.is_empty() {
        return None;
    }
    let want_patch = model_is_patch(pc[pc.len() - 1]);
    for k in 1..=pc.len() {
        let tail = &pc[pc.len() - k..];
        for r in recorded {
            if model_is_patch(r) == want_patch && comps(r) == tail {
                return Some(r);
            }
        }
    }
    None
}

#[derive(Clone, Debug)]
struct Record {
    checksums: Vec<(usize, String)>,
    size: Option<u64>,
}

fn render_distinfo(files: &[FileSpec], recs: &[Record]) -> Vec<u8> {
    let mut s: Vec<u8> = b"$NetBSD: distinfo,v 1.1 2024/01/01 00:00:00 sim Exp $\n\n".to_vec();
    for pass in 0..2 {
        for (f, r) in files.iter().zip(recs.iter()) {
            if model_is_patch(&f.name) != (pass == 1) {
                continue;
            }
            let size_line = |s: &mut Vec<u8>| {
                if let Some(n) = r.size {
                    s.extend_from_slice(b"Size (");
                    s.extend_from_slice(&raw(&f.name));
                    s.extend_from_slice(format!(") = {} bytes\n", n).as_bytes());
                }
            };
            if f.size_first {
                size_line(&mut s);
            }
            for (a, h) in &r.checksums {
                s.extend_from_slice(format!("{} (", ALG_NAMES[*a]).as_bytes());
                s.extend_from_slice(&raw(&f.name));
                s.extend_from_slice(format!(") = {}\n", h).as_bytes());
            }
            if !f.size_first {
                size_line(&mut s);
            }
        }
    }
    s
}

fn model_digest(name: &str, alg: usize, bytes: &[u8]) -> String {
    if model_is_patch(name) {
        ref_digest(alg, &patch_filter(bytes))
    } else {
        ref_digest(alg, bytes)
    }
}

fn gen_content(rng: &mut Rng, patch: bool, tier: Tier) -> Vec<u8> {
    if patch {
        if rng.chance(1, 12) {
            return Vec::new();
        }
        return gen_patch(rng, tier);
    }
    if rng.chance(1, 600) {
        // scale: a distfile beyond 1 MiB whose length is not a multiple of it
        let n = *rng.pick(&[1_048_576usize, 1_048_577, 1_050_000, 2_097_153, 1_600_000]);
        return (0..n).map(|i| (i % 251) as u8 ^ (i >> 12) as u8).collect();
    }
    match rng.below(6) {
        0 => Vec::new(),
        1 => gen_patch(rng, tier), // a distfile that looks like a patch must NOT be filtered
        2 => {
            let n = rng.urange(1, 64);
            let mut v = gen_bytes(rng, n);
            v.push(b'\n');
            v
        }
        _ => {
            let n = *rng.pick(&[1usize, 2, 17, 55, 64, 100, 200, 1000, 9000]);
            gen_bytes(rng, n)
        }
    }
}

fn gen_fault(rng: &mut Rng, files: &[FileSpec]) -> Fault {
    let file = rng.usize_below(files.len());
    let len = files[file].content.len();
    let nalg = files[file].algs.len();
    let alg = if nalg > 0 { files[file].algs[rng.usize_below(nalg)] } else { rng.usize_below(6) };
    match rng.below(22) {
        20 | 21 => Fault::CaseFlipHash {
            file,
            alg,
            pos: rng.usize_below(128),
            whole: rng.chance(1, 3),
        },
        0 | 1 => Fault::BitFlip {
            file,
            off: rng.usize_below(len.max(1)),
            bit: rng.below(8) as u8,
        },
        2 => Fault::ByteSet {
            file,
            off: rng.usize_below(len.max(1)),
            v: rng.below(256) as u8,
        },
        3 => Fault::Truncate {
            file,
            n: rng.usize_below(len.max(1)),
        },
        4 => {
            let n = *rng.pick(&[1usize, 1, 2, 7, 64]);
            Fault::Extend {
                file,
                bytes: gen_bytes(rng, n),
            }
        }
        5 => Fault::ZeroFill {
            file,
            off: rng.usize_below(len.max(1)),
            len: rng.urange(1, 16),
        },
        6 => Fault::ReplaceSameLen {
            file,
            salt: rng.below(255) as u8 + 1,
        },
        7 => Fault::Delete { file },
        8 => Fault::Swap {
            a: file,
            b: rng.usize_below(files.len()),
        },
        9 | 10 => Fault::CorruptHash {
            file,
            alg,
            pos: rng.usize_below(128),
        },
        11 => Fault::TruncateHash {
            file,
            alg,
            keep: *rng.pick(&[0usize, 1, 8, 16, 31, 39]),
        },
        12 => Fault::ExtendHash { file, alg },
        13 => Fault::CorruptSize {
            file,
            // also differences a truncating comparison would not see (multiples
            // of 2^8, 2^16, 2^32; wave 17, C12-54)
            delta: *rng.pick(&[
                -1i64,
                1,
                2,
                -7,
                1000,
                256,
                1 << 16,
                1 << 32,
                3 << 32,
                1 << 31,
                1 << 40,
            ]),
        },
        14 => Fault::DropChecksum { file, alg },
        15 => Fault::DropSize { file },
        16 => Fault::RewriteNetbsdLine {
            file,
            how: rng.below(3) as u8,
        },
        17 => Fault::StripFinalNewline { file },
        18 => Fault::AddFinalNewline { file },
        _ => Fault::ChangeOtherLine { file },
    }
}

fn fault_name(f: &Fault) -> &'static str {
    match f {
        Fault::BitFlip { .. } => "bit_flip",
        Fault::ByteSet { .. } => "byte_set",
        Fault::Truncate { .. } => "truncate",
        Fault::Extend { .. } => "extend",
        Fault::ZeroFill { .. } => "zero_fill",
        Fault::ReplaceSameLen { .. } => "replace_same_len",
        Fault::Delete { .. } => "delete_file",
        Fault::Swap { .. } => "swap_files",
        Fault::CorruptHash { .. } => "corrupt_record_hash",
        Fault::TruncateHash { .. } => "truncate_record_hash",
        Fault::ExtendHash { .. } => "extend_record_hash",
        Fault::CaseFlipHash { .. } => "case_flip_record_hash",
        Fault::CorruptSize { .. } => "corrupt_record_size",
        Fault::DropChecksum { .. } => "drop_record_line",
        Fault::DropSize { .. } => "drop_record_line",
        Fault::RewriteNetbsdLine { .. } => "rewrite_netbsd_line",
        Fault::StripFinalNewline { .. } => "strip_final_newline",
        Fault::AddFinalNewline { .. } => "add_final_newline",
        Fault::ChangeOtherLine { .. } => "change_other_line",
    }
}

/// Apply a fault to the model; returns whether anything changed.
fn apply_fault(f: &Fault, files: &[FileSpec], disk: &mut Vec<Option<Vec<u8>>>, recs: &mut Vec<Record>) -> bool {
    let nfiles = files.len();
    let fi = |i: usize| i % nfiles;
    match f {
        Fault::BitFlip { file, off, bit } => {
            if let Some(c) = &mut disk[fi(*file)] {
                if c.is_empty() {
                    return false;
                }
                let o = off % c.len();
                c[o] ^= 1 << (bit % 8);
                return true;
            }
            false
        }
        Fault::ByteSet { file, off, v } => {
            if let Some(c) = &mut disk[fi(*file)] {
                if c.is_empty() {
                    return false;
                }
                let o = off % c.len();
                if c[o] == *v {
                    return false;
                }
                c[o] = *v;
                return true;
            }
            false
        }
        Fault::Truncate { file, n } => {
            if let Some(c) = &mut disk[fi(*file)] {
                if c.is_empty() {
                    return false;
                }
                let n = n % c.len();
                c.truncate(n);
                return true;
            }
            false
        }
        Fault::Extend { file, bytes } => {
            if let Some(c) = &mut disk[fi(*file)] {
                if bytes.is_empty() {
                    return false;
                }
                c.extend_from_slice(bytes);
                return true;
            }
            false
        }
        Fault::ZeroFill { file, off, len } => {
            if let Some(c) = &mut disk[fi(*file)] {
                if c.is_empty() {
                    return false;
                }
                let o = off % c.len();
                let e = (o + len).min(c.len());
                let mut ch = false;
                for b in &mut c[o..e] {
                    if *b != 0 {
                        ch = true;
                    }
                    *b = 0;
                }
                return ch;
            }
            false
        }
        Fault::ReplaceSameLen { file, salt } => {
            if let Some(c) = &mut disk[fi(*file)] {
                if c.is_empty() {
                    return false;
                }
                for (i, b) in c.iter_mut().enumerate() {
                    *b = b.wrapping_add(*salt).wrapping_add((i % 7) as u8);
                }
                return true;
            }
            false
        }
        Fault::Delete { file } => {
            let had = disk[fi(*file)].is_some();
            disk[fi(*file)] = None;
            had
        }
        Fault::Swap { a, b } => {
            let (a, b) = (fi(*a), fi(*b));
            if a == b {
                return false;
            }
            disk.swap(a, b);
            true
        }
        Fault::CorruptHash { file, alg, pos } => {
            let r = &mut recs[fi(*file)];
            for (a, h) in r.checksums.iter_mut() {
                if a == alg && !h.is_empty() {
                    let p = pos % h.len();
                    let mut b = h.clone().into_bytes();
                    b[p] = match b[p] {
                        b'0' => b'1',
                        b'f' => b'0',
                        b'9' => b'a',
                        c => c + 1,
                    };
                    *h = String::from_utf8(b).unwrap();
                    return true;
                }
            }
            false
        }
        Fault::TruncateHash { file, alg, keep } => {
            let r = &mut recs[fi(*file)];
            for (a, h) in r.checksums.iter_mut() {
                if a == alg && *keep < h.len() && *keep > 0 {
                    h.truncate(*keep);
                    return true;
                }
            }
            false
        }
        Fault::CaseFlipHash { file, alg, pos, whole } => {
            let r = &mut recs[fi(*file)];
            for (a, h) in r.checksums.iter_mut() {
                if a == alg && h.bytes().any(|c| c.is_ascii_alphabetic()) {
                    if *whole {
                        let up = h.to_ascii_uppercase();
                        if up == *h {
                            *h = h.to_ascii_lowercase();
                        } else {
                            *h = up;
                        }
                    } else {
                        let mut b = h.clone().into_bytes();
                        let n = b.len();
                        let at = (0..n).map(|k| (pos + k) % n).find(|&i| b[i].is_ascii_alphabetic()).unwrap();
                        b[at] ^= 0x20;
                        *h = String::from_utf8(b).unwrap();
                    }
                    return true;
                }
            }
            false
        }
        Fault::ExtendHash { file, alg } => {
            let r = &mut recs[fi(*file)];
            for (a, h) in r.checksums.iter_mut() {
                if a == alg {
                    h.push('0');
                    return true;
                }
            }
            false
        }
        Fault::CorruptSize { file, delta } => {
            let r = &mut recs[fi(*file)];
            if let Some(n) = r.size {
                let m = (n as i64 + delta).max(0) as u64;
                if m != n {
                    r.size = Some(m);
                    return true;
                }
            }
            false
        }
        Fault::DropChecksum { file, alg } => {
            let r = &mut recs[fi(*file)];
            // never drop the last line of a file: the entry would vanish and
            // lookups resolve elsewhere, which the model handles, but keep the
            // fault meaning "line lost, entry still there"
            if r.checksums.len() + r.size.is_some() as usize <= 1 {
                return false;
            }
            let before = r.checksums.len();
            r.checksums.retain(|(a, _)| a != alg);
            r.checksums.len() != before
        }
        Fault::DropSize { file } => {
            let r = &mut recs[fi(*file)];
            if r.checksums.is_empty() {
                return false;
            }
            r.size.take().is_some()
        }
        Fault::RewriteNetbsdLine { file, how } => {
            let i = fi(*file);
            if let Some(c) = &mut disk[i] {
                match how % 3 {
                    0 => {
                        // rewrite the first line holding the marker
                        let mut out = Vec::new();
                        let mut done = false;
                        for line in c.split_inclusive(|&b| b == b'\n') {
                            if !done && line.windows(7).any(|w| w == b"$NetBSD") {
                                out.extend_from_slice(b"$NetBSD: rewritten,v 9.9 2031/12/31 23:59:59 root Exp $");
                                if line.ends_with(b"\n") {
                                    out.push(b'\n');
                                }
                                done = true;
                            } else {
                                out.extend_from_slice(line);
                            }
                        }
                        if !done {
                            return false;
                        }
                        *c = out;
                        true
                    }
                    1 => {
                        // add a marker line at the top
                        let mut out = b"$NetBSD$\n".to_vec();
                        out.extend_from_slice(c);
                        *c = out;
                        true
                    }
                    _ => {
                        // remove every marker line (only whole, terminated ones)
                        let mut out = Vec::new();
                        let mut ch = false;
                        for line in c.split_inclusive(|&b| b == b'\n') {
                            if line.ends_with(b"\n") && line.windows(7).any(|w| w == b"$NetBSD") {
                                ch = true;
                            } else {
                                out.extend_from_slice(line);
                            }
                        }
                        *c = out;
                        ch
                    }
                }
            } else {
                false
            }
        }
        Fault::StripFinalNewline { file } => {
            if let Some(c) = &mut disk[fi(*file)] {
                if c.last() == Some(&b'\n') {
                    c.pop();
                    return true;
                }
            }
            false
        }
        Fault::AddFinalNewline { file } => {
            if let Some(c) = &mut disk[fi(*file)] {
                if !c.is_empty() && c.last() != Some(&b'\n') {
                    c.push(b'\n');
                    return true;
                }
            }
            false
        }
        Fault::ChangeOtherLine { file } => {
            if let Some(c) = &mut disk[fi(*file)] {
                let mut start = 0usize;
                let lines: Vec<(usize, usize)> = c
                    .split_inclusive(|&b| b == b'\n')
                    .map(|l| {
                        let s = start;
                        start += l.len();
                        (s, l.len())
                    })
                    .collect();
                for (s, l) in lines {
                    let line = &c[s..s + l];
                    let body = if line.ends_with(b"\n") { l - 1 } else { l };
                    if body > 0 && !line.windows(7).any(|w| w == b"$NetBSD") {
                        c[s] = if c[s] == b'#' { b'%' } else { b'#' };
                        // make sure the change did not create a marker
                        return true;
                    }
                }
            }
            false
        }
    }
}

/// The verdict of a verify_* call without its path fields.
fn shape<T: std::fmt::Debug>(r: &Result<T, DistinfoError>) -> String {
    match r {
        Ok(v) => format!("Ok({:?})", v),
        Err(DistinfoError::Io(_)) => "Io".to_string(),
        Err(DistinfoError::Digest(_)) => "Digest".to_string(),
        Err(DistinfoError::NotFound) => "NotFound".to_string(),
        Err(DistinfoError::Checksum(_, d, e, a)) => format!("Checksum({},{},{})", d, e, a),
        Err(DistinfoError::MissingChecksum(_, d)) => format!("MissingChecksum({})", d),
        Err(DistinfoError::Size(_, e, a)) => format!("Size({},{})", e, a),
        Err(DistinfoError::MissingSize(_)) => "MissingSize".to_string(),
    }
}

/// Model names are strings; the private-use character U+F8E9 stands for the
/// single raw byte 0xE9 (Latin-1 e-acute), so that names that are not valid
/// UTF-8 can be generated, stored and looked up.
fn raw(name: &str) -> Vec<u8> {
    let mut out = Vec::with_capacity(name.len());
    for ch in name.chars() {
        if ch == '\u{f8e9}' {
            out.push(0xe9);
        } else {
            let mut b = [0u8; 4];
            out.extend_from_slice(ch.encode_utf8(&mut b).as_bytes());
        }
    }
    out
}

fn os(name: &str) -> std::ffi::OsString {
    use std::os::unix::ffi::OsStringExt;
    std::ffi::OsString::from_vec(raw(name))
}

fn has_raw(name: &str) -> bool {
    name.contains('\u{f8e9}')
}

/// Absolute path of a stored file inside the scratch tree.
fn stored(sd: &SimDisk, name: &str) -> std::path::PathBuf {
    sd.root().join("d").join(os(name))
}

/// The same path as the model sees it (a plain string, U+F8E9 kept).
fn stored_model(sd: &SimDisk, name: &str) -> String {
    format!("{}/d/{}", sd.root().display(), name)
}

fn store(sd: &SimDisk, name: &str, data: &[u8], via_symlink: bool) {
    let p = stored(sd, name);
    if let Some(parent) = p.parent() {
        std::fs::create_dir_all(parent).unwrap_or_else(|e| panic!("SIM-HARNESS: mkdir: {}", e));
    }
    if via_symlink {
        let real_dir = sd.root().join("real");
        std::fs::create_dir_all(&real_dir).unwrap_or_else(|e| panic!("SIM-HARNESS: mkdir: {}", e));
        let real = real_dir.join(format!("{:016x}", crate::rng::hash_str(name)));
        std::fs::write(&real, data).unwrap_or_else(|e| panic!("SIM-HARNESS: write: {}", e));
        if std::fs::symlink_metadata(&p).map(|m| m.file_type().is_symlink()).unwrap_or(false) {
            return;
        }
        let _ = std::fs::remove_file(&p);
        std::os::unix::fs::symlink(&real, &p).unwrap_or_else(|e| panic!("SIM-HARNESS: symlink: {}", e));
        return;
    }
    std::fs::write(&p, data).unwrap_or_else(|e| panic!("SIM-HARNESS: write: {}", e));
}

impl Property for C12 {
    type Sc = Sc;

    fn id(&self) -> &'static str {
        "C12"
    }
    fn level(&self) -> &'static str {
        "fault_enumeration"
    }
    fn runs(&self, tier: Tier) -> u64 {
        match tier {
            Tier::Quick => 6_000,
            Tier::Thorough => 1_200_000,
        }
    }

    fn generate(&self, rng: &mut Rng, _run: u64, tier: Tier) -> Sc {
        let n = rng.urange(1, 5);
        let mut names: Vec<String> = Vec::new();
        let collide = rng.chance(1, 3);
        while names.len() < n {
            let name = if rng.chance(1, 150) {
                // scale: a recorded name of 255 / 256 / 257 path components
                format!("{}f-deep.tgz", "d/".repeat(*rng.pick(&[254usize, 255, 256, 300])))
            } else if rng.chance(2, 5) {
                rng.pick(&PATCH_NAMES).to_string()
            } else if collide {
                rng.pick(&["f.tgz", "a/f.tgz", "b/a/f.tgz", "c/b/a/f.tgz", "l\u{f8e9}gacy/f.tgz"]).to_string()
            } else {
                rng.pick(&DIST_NAMES).to_string()
            };
            if !names.contains(&name) {
                names.push(name);
            }
        }
        let files: Vec<FileSpec> = names
            .into_iter()
            .map(|name| {
                let patch = model_is_patch(&name);
                let mut algs: Vec<usize> = (0..6).collect();
                rng.shuffle(&mut algs);
                let k = if patch { rng.urange(1, 2) } else { rng.urange(1, 4) };
                algs.truncate(k);
                FileSpec {
                    content: gen_content(rng, patch, tier),
                    algs,
                    size: rng.chance(4, 5),
                    size_first: rng.chance(1, 3),
                    decoy_first: rng.chance(1, 3),
                    via_symlink: rng.chance(1, 8),
                    name,
                }
            })
            .collect();
        let nf = match rng.below(8) {
            0 => 0,
            1..=4 => rng.urange(1, 2),
            _ => rng.urange(2, 4),
        };
        let faults = (0..nf).map(|_| gen_fault(rng, &files)).collect();
        let mut lookups: Vec<String> = Vec::new();
        for _ in 0..rng.urange(1, 5) {
            let base = if rng.chance(1, 2) {
                files[rng.usize_below(files.len())].name.clone()
            } else if rng.chance(1, 2) {
                rng.pick(&UNRECORDED).to_string()
            } else {
                rng.pick(&DIST_NAMES).to_string()
            };
            let prefix = *rng.pick(&["", "/usr/pkgsrc/distfiles/", "x/", "/", "a/", "b/a/", "../../distfiles/", "sub/"]);
            lookups.push(format!("{}{}", prefix, base));
        }
        let via_api = rng.chance(1, 2);
        let mut files = files;
        if via_api {
            // Distinfo::as_bytes() does not write sizes of patch files
            for f in files.iter_mut() {
                if model_is_patch(&f.name) {
                    f.size = false;
                }
            }
        }
        // as_bytes() writes names through a lossy conversion (that is C10's
        // subject, not C12's): records with names that are not UTF-8 are
        // verified on the inserted Distinfo itself
        let direct = rng.chance(1, 2) || files.iter().any(|f| has_raw(&f.name));
        Sc {
            files,
            via_api,
            faults,
            lookups,
            direct,
            twin: rng.chance(1, 3),
            neighbour: if rng.chance(1, 4) {
                let data: Vec<u8> = rng
                    .pick(&[
                        &b"+an ordinary line, cut before its end"[..],
                        &b"$NetBSD: patch-aa,v 1.1 2024/01/01 00:00:00 cut"[..],
                        &b"first\nsecond line, cut"[..],
                        &b"x"[..],
                        &b"$NetBSD$\n+kept\n-cut"[..],
                    ])
                    .to_vec();
                let give = if rng.chance(1, 2) { data.len() } else { rng.urange(1, data.len()) };
                Some(Neighbour {
                    patch: rng.chance(3, 4),
                    alg: rng.usize_below(6),
                    data,
                    give,
                    kind: *rng.pick(&crate::seams::ErrKind::ALL),
                })
            } else {
                None
            },
            migrate: if rng.chance(1, 8) { rng.next_u64() | (1 << 63) } else { 0 },
        }
    }

    fn execute(&self, sc: &Sc, ctx: &mut Ctx) -> Outcome {
        if sc.files.is_empty() {
            return Ok(());
        }
        // scenario sanity (shrinking may produce duplicates)
        for i in 0..sc.files.len() {
            for j in i + 1..sc.files.len() {
                if sc.files[i].name == sc.files[j].name {
                    return Ok(());
                }
            }
        }
        let sd = SimDisk::new();
        let mut disk: Vec<Option<Vec<u8>>> = sc.files.iter().map(|f| Some(f.content.clone())).collect();
        for f in &sc.files {
            if has_raw(&f.name) {
                ctx.probe("name-not-utf8");
            }
            store(&sd, &f.name, &f.content, f.via_symlink);
            if f.via_symlink {
                ctx.fault("stored_behind_symlink");
            }
            ctx.step("store", f.content.len() as u64, model_is_patch(&f.name) as u64);
        }
        let helper: Option<Helper> = if sc.migrate != 0 && is_send_sync!(Distinfo) {
            ctx.fault("caller_thread_switch");
            Some(Helper::new())
        } else {
            None
        };
        let mask = sc.migrate;
        if let Some(nb) = &sc.neighbour {
            use crate::seams::{ReadStep, SimReader};
            ctx.fault("neighbour_call_failed");
            let mut r = SimReader::new(nb.data.clone(), vec![ReadStep::Give(nb.give.max(1)), ReadStep::FailForever(nb.kind)]);
            let res = if nb.patch { ALGS[nb.alg].hash_patch(&mut r) } else { ALGS[nb.alg].hash_file(&mut r) };
            if res.is_err() {
                ctx.probe("neighbour-call-failed-before-the-record-is-used");
            }
        }
        // the record, as the model sees it
        let mut recs: Vec<Record> = sc
            .files
            .iter()
            .map(|f| Record {
                checksums: f.algs.iter().map(|a| (*a, model_digest(&f.name, *a, &f.content))).collect(),
                size: if f.size { Some(f.content.len() as u64) } else { None },
            })
            .collect();

        let mut distinfo = if sc.via_api {
            ctx.probe("record-built-through-api");
            let mut di = Distinfo::new();
            // history: lookups interleaved with inserts must always see exactly
            // the entries inserted so far (shortest recorded trailing sub-path)
            let lookup_all = |di: &Distinfo, so_far: &[String], ctx: &mut Ctx| -> Outcome {
                for f in &sc.files {
                    let ps = stored_model(&sd, &f.name);
                    let pp = stored(&sd, &f.name);
                    let want = model_find(so_far, &ps);
                    ctx.step("lookup-during-build", so_far.len() as u64, 0);
                    match (want, di.find_entry(&pp)) {
                        (Some(w), Ok(e)) => ensure!(
                            e.filename == Path::new(&os(w)),
                            "lookup-resolved-wrong-entry",
                            "after {} inserts find_entry({}) resolved to {:?}, the shortest recorded trailing sub-path is {:?}",
                            so_far.len(),
                            f.name,
                            e.filename,
                            w
                        ),
                        (None, Err(DistinfoError::NotFound)) => {}
                        (w, got) => fail!(
                            "lookup-resolved-wrong-entry",
                            "after {} inserts find_entry({}) gave {:?}, the model says {:?}",
                            so_far.len(),
                            f.name,
                            got.map(|e| e.filename.clone()).map_err(|e| e.to_string()),
                            w
                        ),
                    }
                }
                Ok(())
            };
            let mut so_far: Vec<String> = Vec::new();
            lookup_all(&di, &so_far, ctx)?;
            for (f, r) in sc.files.iter().zip(recs.iter()) {
                let p = stored(&sd, &f.name);
                let mut cks = Vec::new();
                for (a, want) in &r.checksums {
                    match Distinfo::calculate_checksum(&p, ALGS[*a]) {
                        Ok(h) => {
                            ensure!(
                                h == *want,
                                "calculate-checksum-mismatch",
                                "calculate_checksum({}, {}) = {}, reference digest is {}",
                                f.name,
                                ALG_NAMES[*a],
                                h,
                                want
                            );
                            cks.push(Checksum::new(ALGS[*a], h));
                        }
                        Err(e) => fail!("calculate-checksum-mismatch", "calculate_checksum({}) failed: {}", f.name, e),
                    }
                }
                let size = if f.size {
                    match Distinfo::calculate_size(&p) {
                        Ok(n) => {
                            ensure!(
                                n == f.content.len() as u64,
                                "calculate-size-mismatch",
                                "calculate_size({}) = {}, file has {} bytes",
                                f.name,
                                n,
                                f.content.len()
                            );
                            Some(n)
                        }
                        Err(e) => fail!("calculate-size-mismatch", "calculate_size({}) failed: {}", f.name, e),
                    }
                } else {
                    None
                };
                if f.decoy_first {
                    ctx.probe("entry-re-inserted-over-a-decoy");
                    let decoy = Entry::new(
                        os(&f.name),
                        &p,
                        (0..6).map(|a| Checksum::new(ALGS[a], "0".repeat(HEX_LEN[a]))).collect(),
                        Some(f.content.len() as u64 + 9),
                    );
                    di.insert(decoy);
                }
                let e = Entry::new(os(&f.name), &p, cks, size);
                ensure!(
                    (e.filetype == EntryType::Patchfile) == model_is_patch(&f.name),
                    "file-kind",
                    "{} classified as {:?}",
                    f.name,
                    e.filetype
                );
                di.insert(e);
                so_far.push(f.name.clone());
                ctx.probe("lookup-interleaved-with-insert");
                lookup_all(&di, &so_far, ctx)?;
            }
            if sc.direct {
                ctx.probe("verified-with-the-inserted-distinfo-itself");
                di
            } else {
                on_thread!(helper, mask, 0u64, Distinfo::from_bytes(&di.as_bytes()))
            }
        } else {
            on_thread!(helper, mask, 0u64, Distinfo::from_bytes(&render_distinfo(&sc.files, &recs)))
        };
        let mut mcall = 0u64;

        let recorded: Vec<String> = sc.files.iter().map(|f| f.name.clone()).collect();
        let nrounds = sc.faults.len() + 1;
        for round in 0..nrounds {
            if round > 0 {
                let f = &sc.faults[round - 1];
                let fired = apply_fault(f, &sc.files, &mut disk, &mut recs);
                ctx.step("fault", round as u64, fired as u64);
                if fired {
                    ctx.fault(fault_name(f));
                }
                // make the simulated disk and the record in memory reflect the model
                for (i, fsp) in sc.files.iter().enumerate() {
                    match &disk[i] {
                        Some(c) => store(&sd, &fsp.name, c, fsp.via_symlink),
                        None => {
                            let _ = std::fs::remove_file(stored(&sd, &fsp.name));
                        }
                    }
                }
                distinfo = Distinfo::from_bytes(&render_distinfo(&sc.files, &recs));
            }
            // ---- verification round (odd rounds use a clone of the record)
            if round % 2 == 1 {
                distinfo = distinfo.clone();
                ctx.probe("verified-on-a-clone");
            }
            // the other two live records of this round (see Sc::twin)
            let mut other_recorded: Vec<String> = Vec::new();
            let mut tail_recorded: Vec<String> = recorded.clone();
            let (other, with_tails) = if sc.twin {
                ctx.fault("interleaved_objects");
                other_recorded.push("zz-other-decoy.tgz".to_string());
                for f in sc.files.iter().rev() {
                    other_recorded.push(f.name.clone());
                }
                for l in &sc.lookups {
                    // names the record under test may not know at all
                    if !l.is_empty() && !l.ends_with('/') && !other_recorded.contains(l) && !has_raw(l) && !l.starts_with('/') && !l.contains("..") {
                        other_recorded.push(l.clone());
                    }
                }
                let mut text: Vec<u8> = b"$NetBSD$\n\n".to_vec();
                for n in &other_recorded {
                    text.extend_from_slice(b"SHA1 (");
                    text.extend_from_slice(&raw(n));
                    text.extend_from_slice(b") = 0000000000000000000000000000000000000000\n");
                }
                let other = Distinfo::from_bytes(&text);
                // a clone that then learns shorter tails of the DIST_SUBDIR names
                let mut c = distinfo.clone();
                for f in &sc.files {
                    if let Some(pos) = f.name.rfind('/') {
                        let tail = f.name[pos + 1..].to_string();
                        if !tail.is_empty() && !tail_recorded.contains(&tail) && model_is_patch(&tail) == model_is_patch(&f.name) {
                            c.insert(Entry::new(os(&tail), stored(&sd, &tail), vec![Checksum::new(ALGS[3], "0".repeat(HEX_LEN[3]))], None));
                            tail_recorded.push(tail);
                        }
                    }
                }
                (Some(other), Some(c))
            } else {
                (None, None)
            };
            // one lookup on each of the other two records, judged against their own models
            let twin_lookup = |path: &std::ffi::OsStr, model_path: &str, ctx: &mut Ctx| -> Outcome {
                if let Some(o) = &other {
                    let want = model_find(&other_recorded, model_path);
                    match (want, o.find_entry(path)) {
                        (Some(w), Ok(e)) => ensure!(
                            e.filename == Path::new(&os(w)),
                            "twin-record-answered-wrongly",
                            "an unrelated Distinfo resolved {:?} to {:?}; its own shortest recorded tail is {:?}",
                            model_path,
                            e.filename,
                            w
                        ),
                        (None, Err(DistinfoError::NotFound)) => {}
                        (w, g) => fail!(
                            "twin-record-answered-wrongly",
                            "an unrelated Distinfo answered {:?} for {:?}; its own record says {:?}",
                            g.map(|e| e.filename.clone()).map_err(|e| e.to_string()),
                            model_path,
                            w
                        ),
                    }
                    ctx.probe("twin-record-consulted");
                }
                if let Some(c) = &with_tails {
                    let want = model_find(&tail_recorded, model_path);
                    match (want, c.find_entry(path)) {
                        (Some(w), Ok(e)) => ensure!(
                            e.filename == Path::new(&os(w)),
                            "twin-record-answered-wrongly",
                            "a clone that was given shorter tails afterwards resolved {:?} to {:?}; its shortest recorded tail is {:?}",
                            model_path,
                            e.filename,
                            w
                        ),
                        (None, Err(DistinfoError::NotFound)) => {}
                        (w, g) => fail!(
                            "twin-record-answered-wrongly",
                            "a clone that was given shorter tails afterwards answered {:?} for {:?}; its record says {:?}",
                            g.map(|e| e.filename.clone()).map_err(|e| e.to_string()),
                            model_path,
                            w
                        ),
                    }
                }
                Ok(())
            };
            for (i, fsp) in sc.files.iter().enumerate() {
                let p = stored(&sd, &fsp.name);
                let ps = stored_model(&sd, &fsp.name);
                // the other records are asked first, then the one under test
                twin_lookup(p.as_os_str(), &ps, ctx)?;
                let resolved = model_find(&recorded, &ps);
                let ri = match resolved {
                    Some(r) => recorded.iter().position(|x| x == r).unwrap(),
                    None => fail!("harness-model", "model cannot resolve its own file {}", fsp.name),
                };
                if ri != i {
                    ctx.probe("shortest-tail-chosen-over-own-name");
                }
                let rec = &recs[ri];
                let rname = &sc.files[ri].name;
                // an entry whose every line was dropped does not exist
                let on_disk = disk[i].as_ref();
                ctx.step("verify", i as u64, round as u64);

                // find_entry resolves to the shortest recorded trailing sub-path
                match distinfo.find_entry(&p) {
                    Ok(e) => ensure!(
                        e.filename == Path::new(&os(rname)),
                        "lookup-resolved-wrong-entry",
                        "find_entry({}) resolved to {:?}, the shortest recorded trailing sub-path is {:?}",
                        fsp.name,
                        e.filename,
                        rname
                    ),
                    Err(e) => fail!("lookup-resolved-wrong-entry", "find_entry({}) failed: {}", fsp.name, e),
                }
                // the entry holds exactly what was recorded, and its own verify_*
                // methods give the same verdicts as the Distinfo-level ones
                if let Ok(e) = distinfo.find_entry(&p) {
                    ensure!(
                        e.size == rec.size,
                        "entry-record-differs",
                        "{}: entry.size is {:?}, recorded {:?}",
                        rname,
                        e.size,
                        rec.size
                    );
                    let got_ck: Vec<(String, String)> =
                        e.checksums.iter().map(|c| (c.digest.to_string(), c.hash.clone())).collect();
                    let want_ck: Vec<(String, String)> =
                        rec.checksums.iter().map(|(a, h)| (ALG_NAMES[*a].to_string(), h.clone())).collect();
                    ensure!(
                        got_ck == want_ck,
                        "entry-record-differs",
                        "{}: entry.checksums are {:?}, recorded {:?}",
                        rname,
                        got_ck,
                        want_ck
                    );
                    ensure!(
                        (e.filetype == EntryType::Patchfile) == model_is_patch(rname),
                        "file-kind",
                        "{} classified as {:?}",
                        rname,
                        e.filetype
                    );
                    ensure!(
                        shape(&e.verify_size(&p)) == shape(&distinfo.verify_size(&p)),
                        "entry-and-distinfo-verdicts-differ",
                        "{}: Entry::verify_size gives {} but Distinfo::verify_size gives {}",
                        fsp.name,
                        shape(&e.verify_size(&p)),
                        shape(&distinfo.verify_size(&p))
                    );
                    for a in 0..6 {
                        let x = shape(&e.verify_checksum(&p, ALGS[a]));
                        let y = shape(&distinfo.verify_checksum(&p, ALGS[a]));
                        ensure!(
                            x == y,
                            "entry-and-distinfo-verdicts-differ",
                            "{} {}: Entry::verify_checksum gives {} but Distinfo::verify_checksum gives {}",
                            fsp.name,
                            ALG_NAMES[a],
                            x,
                            y
                        );
                    }
                    // the same bytes under a name of the *other* kind (a download
                    // temp file, a mkpatches backup): an entry hashes the way its
                    // own kind says, whatever the checked file is called
                    if round == 0 {
                        if let Some(c) = on_disk {
                            let alias = if model_is_patch(rname) { "alias/zz-download.tmp" } else { "alias/patch-zzalias" };
                            sd.write(alias, c);
                            let ap = sd.path(alias);
                            for (a, h) in &rec.checksums {
                                let want_ok = model_digest(rname, *a, c) == *h;
                                let got = e.verify_checksum(&ap, ALGS[*a]);
                                ctx.probe("entry-verify-under-alias-name");
                                ensure!(
                                    got.is_ok() == want_ok,
                                    "entry-hashes-by-file-name-not-entry-kind",
                                    "{} ({} entry) checked against the same bytes stored as {}: {} gives {} but the entry's kind says {}",
                                    rname,
                                    if model_is_patch(rname) { "patch" } else { "distfile" },
                                    alias,
                                    ALG_NAMES[*a],
                                    shape(&got),
                                    if want_ok { "match" } else { "mismatch" }
                                );
                            }
                            sd.remove(alias);
                        }
                    }
                    let x: Vec<String> = e.verify_checksums(&p).iter().map(shape).collect();
                    let y: Vec<String> = distinfo.verify_checksums(&p).iter().map(shape).collect();
                    ensure!(
                        x == y,
                        "entry-and-distinfo-verdicts-differ",
                        "{}: Entry::verify_checksums gives {:?} but Distinfo::verify_checksums gives {:?}",
                        fsp.name,
                        x,
                        y
                    );
                }

                // size
                let disk_len = on_disk.map(|c| c.len()).unwrap_or(0);
                mcall += 1;
                let got = on_thread!(helper, mask, mcall, metered!(ctx, 64, distinfo.verify_size(&p)));
                match (rec.size, on_disk) {
                    (Some(n), Some(c)) if c.len() as u64 == n => {
                        ctx.probe("verdict-size-ok");
                        match got {
                            Ok(m) if m == n => {}
                            other => fail!(
                                "size-should-pass",
                                "{} has {} bytes and {} are recorded, but verify_size gave {:?}",
                                fsp.name,
                                c.len(),
                                n,
                                other.map_err(|e| e.to_string())
                            ),
                        }
                    }
                    (Some(n), Some(c)) => {
                        ctx.probe("verdict-size-mismatch");
                        match got {
                            Err(DistinfoError::Size(_, exp, act)) => ensure!(
                                exp == n && act == c.len() as u64,
                                "size-error-values",
                                "{}: Size error carries ({}, {}), expected (recorded {}, actual {})",
                                fsp.name,
                                exp,
                                act,
                                n,
                                c.len()
                            ),
                            Ok(m) => fail!(
                                "size-should-fail",
                                "{} has {} bytes but {} are recorded, and verify_size returned Ok({})",
                                fsp.name,
                                c.len(),
                                n,
                                m
                            ),
                            Err(e) => fail!("size-wrong-error", "{}: expected a Size error, got {}", fsp.name, e),
                        }
                    }
                    (Some(_), None) => {
                        ctx.probe("verdict-recorded-but-missing-file");
                        match got {
                            Err(DistinfoError::Io(_)) => {}
                            other => fail!(
                                "missing-file-not-io",
                                "{} is recorded but deleted; verify_size gave {:?}",
                                fsp.name,
                                other.map_err(|e| e.to_string())
                            ),
                        }
                    }
                    (None, Some(_)) => {
                        ctx.probe("verdict-missing-size");
                        match got {
                            Err(DistinfoError::MissingSize(_)) => {}
                            other => fail!(
                                "unrecorded-size-not-missing",
                                "{} has no recorded size; verify_size gave {:?}",
                                fsp.name,
                                other.map_err(|e| e.to_string())
                            ),
                        }
                    }
                    (None, None) => match got {
                        Err(DistinfoError::MissingSize(_)) | Err(DistinfoError::Io(_)) => {}
                        other => fail!(
                            "unrecorded-size-not-missing",
                            "{}: no size, no file; verify_size gave {:?}",
                            fsp.name,
                            other.map_err(|e| e.to_string())
                        ),
                    },
                }

                // each of the six algorithms
                for a in 0..6 {
                    mcall += 1;
                    let got = on_thread!(helper, mask, mcall, metered!(ctx, disk_len + 64, distinfo.verify_checksum(&p, ALGS[a])));
                    let recd = rec.checksums.iter().find(|(x, _)| *x == a).map(|(_, h)| h.clone());
                    match (recd, on_disk) {
                        (Some(h), Some(c)) => {
                            let actual = model_digest(rname, a, c);
                            if h == actual {
                                ctx.probe("verdict-checksum-ok");
                                match got {
                                    Ok(d) if d == ALGS[a] => {}
                                    other => fail!(
                                        "checksum-should-pass",
                                        "{} {}: recorded hash equals the digest of the stored bytes but verify_checksum gave {:?}",
                                        fsp.name,
                                        ALG_NAMES[a],
                                        other.map_err(|e| e.to_string())
                                    ),
                                }
                            } else {
                                ctx.probe("verdict-checksum-mismatch");
                                match got {
                                    Err(DistinfoError::Checksum(_, d, exp, act)) => ensure!(
                                        d == ALGS[a] && exp == h && act == actual,
                                        "checksum-error-values",
                                        "{} {}: Checksum error carries ({}, {}, {}), expected (recorded {}, actual {})",
                                        fsp.name,
                                        ALG_NAMES[a],
                                        d,
                                        exp,
                                        act,
                                        h,
                                        actual
                                    ),
                                    Ok(_) => fail!(
                                        "checksum-should-fail",
                                        "{} {}: recorded {} but the stored bytes digest to {}, and verify_checksum returned Ok",
                                        fsp.name,
                                        ALG_NAMES[a],
                                        h,
                                        actual
                                    ),
                                    Err(e) => fail!("checksum-wrong-error", "{}: expected a Checksum error, got {}", fsp.name, e),
                                }
                            }
                        }
                        (Some(_), None) => match got {
                            Err(DistinfoError::Io(_)) => {}
                            other => fail!(
                                "missing-file-not-io",
                                "{} is recorded but deleted; verify_checksum gave {:?}",
                                fsp.name,
                                other.map_err(|e| e.to_string())
                            ),
                        },
                        (None, Some(_)) => {
                            ctx.probe("verdict-missing-checksum");
                            match got {
                                Err(DistinfoError::MissingChecksum(_, d)) => ensure!(
                                    d == ALGS[a],
                                    "unrecorded-algorithm-not-missing",
                                    "MissingChecksum names {} instead of {}",
                                    d,
                                    ALG_NAMES[a]
                                ),
                                other => fail!(
                                    "unrecorded-algorithm-not-missing",
                                    "{} has no {} recorded; verify_checksum gave {:?}",
                                    fsp.name,
                                    ALG_NAMES[a],
                                    other.map_err(|e| e.to_string())
                                ),
                            }
                        }
                        (None, None) => match got {
                            Err(DistinfoError::MissingChecksum(_, _)) | Err(DistinfoError::Io(_)) => {}
                            other => fail!(
                                "unrecorded-algorithm-not-missing",
                                "{}: no {} recorded, no file; verify_checksum gave {:?}",
                                fsp.name,
                                ALG_NAMES[a],
                                other.map_err(|e| e.to_string())
                            ),
                        },
                    }
                }

                // verify_checksums: one result per recorded checksum, in order
                mcall += 1;
                let all = on_thread!(helper, mask, mcall, metered!(ctx, (disk_len + 64) * rec.checksums.len().max(1), distinfo.verify_checksums(&p)));
                ensure!(
                    all.len() == rec.checksums.len(),
                    "verify-checksums-count",
                    "{}: {} checksums recorded, verify_checksums returned {} results",
                    fsp.name,
                    rec.checksums.len(),
                    all.len()
                );
                for (res, (a, h)) in all.iter().zip(rec.checksums.iter()) {
                    let want_ok = on_disk.map_or(false, |c| model_digest(rname, *a, c) == *h);
                    match res {
                        Ok(d) => ensure!(
                            want_ok && *d == ALGS[*a],
                            "verify-checksums-verdict",
                            "{}: verify_checksums says Ok({}) for recorded {} (should pass: {})",
                            fsp.name,
                            d,
                            ALG_NAMES[*a],
                            want_ok
                        ),
                        Err(DistinfoError::Checksum(_, d, _, _)) => ensure!(
                            !want_ok && on_disk.is_some() && *d == ALGS[*a],
                            "verify-checksums-verdict",
                            "{}: verify_checksums says mismatch for {} (should pass: {})",
                            fsp.name,
                            d,
                            want_ok
                        ),
                        Err(DistinfoError::Io(_)) => ensure!(
                            on_disk.is_none(),
                            "verify-checksums-verdict",
                            "{}: verify_checksums reports an I/O error but the file exists",
                            fsp.name
                        ),
                        Err(e) => fail!("verify-checksums-verdict", "{}: unexpected {}", fsp.name, e),
                    }
                }
            }
            // ---- pure lookups
            for l in &sc.lookups {
                let want = model_find(&recorded, l);
                let lo = os(l);
                if !has_raw(l) {
                    twin_lookup(&lo, l, ctx)?;
                }
                let got = distinfo.find_entry(&lo);
                match (want, got) {
                    (Some(w), Ok(e)) => {
                        if recorded.iter().filter(|r| comps(l).ends_with(&comps(r)) && model_is_patch(r) == model_is_patch(w)).count() >= 2 {
                            ctx.probe("shortest-tail-among-several");
                        }
                        ensure!(
                            e.filename == Path::new(&os(w)),
                            "lookup-resolved-wrong-entry",
                            "find_entry({:?}) resolved to {:?}, the shortest recorded trailing sub-path is {:?}",
                            l,
                            e.filename,
                            w
                        )
                    }
                    (Some(w), Err(e)) => fail!(
                        "lookup-resolved-wrong-entry",
                        "find_entry({:?}) failed ({}) but {:?} is a recorded trailing sub-path",
                        l,
                        e,
                        w
                    ),
                    (None, Err(DistinfoError::NotFound)) => {
                        ctx.probe("verdict-not-found");
                        // the verify functions agree
                        match distinfo.verify_size(&lo) {
                            Err(DistinfoError::NotFound) => {}
                            other => fail!(
                                "unrecorded-path-not-notfound",
                                "verify_size({:?}) gave {:?}",
                                l,
                                other.map_err(|e| e.to_string())
                            ),
                        }
                        match distinfo.verify_checksum(&lo, ALGS[3]) {
                            Err(DistinfoError::NotFound) => {}
                            other => fail!(
                                "unrecorded-path-not-notfound",
                                "verify_checksum({:?}) gave {:?}",
                                l,
                                other.map_err(|e| e.to_string())
                            ),
                        }
                        let v = distinfo.verify_checksums(&lo);
                        ensure!(
                            v.len() == 1 && matches!(v[0], Err(DistinfoError::NotFound)),
                            "unrecorded-path-not-notfound",
                            "verify_checksums({:?}) gave {} results",
                            l,
                            v.len()
                        );
                    }
                    (None, Err(e)) => fail!("unrecorded-path-not-notfound", "find_entry({:?}) gave {}", l, e),
                    (None, Ok(e)) => fail!(
                        "unrecorded-path-found",
                        "find_entry({:?}) resolved to {:?} but no trailing sub-path of it is recorded",
                        l,
                        e.filename
                    ),
                }
            }
        }
        // a copy of a recorded file somewhere else (another work directory), with one byte
        // changed: its full path still ends in the recorded name, so it resolves to the same
        // entry - and must be judged by ITS content, whatever path the entry was built from
        for (fi, f) in sc.files.iter().enumerate() {
            if f.content.is_empty() || f.content.len() > 200_000 || has_raw(&f.name) {
                continue;
            }
            let copy_model = format!("{}/elsewhere/{}", sd.root().display(), f.name);
            if model_find(&recorded, &copy_model).map(|r| r.as_str()) != Some(f.name.as_str()) {
                continue;
            }
            let Some((a, want_hash)) = recs[fi].checksums.first().cloned() else { continue };
            let mut changed = f.content.clone();
            let at = changed.len() / 2;
            changed[at] = if changed[at] == b'#' { b'%' } else { b'#' };
            if model_digest(&f.name, a, &changed) == want_hash {
                continue; // the changed byte lies in a line the patch filter drops
            }
            let copy = sd.root().join("elsewhere").join(os(&f.name));
            if let Some(parent) = copy.parent() {
                std::fs::create_dir_all(parent).unwrap_or_else(|e| panic!("SIM-HARNESS: mkdir: {}", e));
            }
            std::fs::write(&copy, &changed).unwrap_or_else(|e| panic!("SIM-HARNESS: write: {}", e));
            ctx.fault("changed_copy_elsewhere");
            let got = distinfo.verify_checksum(&copy, ALGS[a]);
            ensure!(
                matches!(got, Err(DistinfoError::Checksum(..))),
                "checksum-should-fail",
                "{}: a copy in another directory with byte {} changed: verify_checksum({}) gave {}",
                f.name,
                at,
                ALG_NAMES[a],
                shape(&got)
            );
            if let Ok(e) = distinfo.find_entry(&copy) {
                let got = e.verify_checksum(&copy, ALGS[a]);
                ensure!(
                    matches!(got, Err(DistinfoError::Checksum(..))),
                    "checksum-should-fail",
                    "{}: a copy in another directory with byte {} changed: Entry::verify_checksum({}) gave {}",
                    f.name,
                    at,
                    ALG_NAMES[a],
                    shape(&got)
                );
            }
            break;
        }
        // a relative path is looked up as it is written: the directory the process happens
        // to run in is not part of it (recorded: "<name of the current directory>/zz-rel.tgz";
        // asked for: "zz-rel.tgz")
        if let Some(cwd_name) = std::env::current_dir().ok().and_then(|d| d.file_name().map(|n| n.to_os_string())) {
            let mut di = Distinfo::new();
            let rec_name = std::path::Path::new(&cwd_name).join("zz-rel.tgz");
            di.insert(Entry::new(rec_name.clone().into_os_string(), rec_name, vec![Checksum::new(ALGS[3], "0".repeat(HEX_LEN[3]))], Some(1)));
            ctx.probe("relative-path-looked-up");
            let got = di.find_entry(std::path::Path::new("zz-rel.tgz"));
            ensure!(
                matches!(got, Err(DistinfoError::NotFound)),
                "unrecorded-path-found",
                "find_entry(\"zz-rel.tgz\") on a record of {:?} only: resolved to {:?} (the current directory leaked into the lookup)",
                cwd_name,
                got.map(|e| e.filename.clone()).map_err(|e| e.to_string())
            );
        }
        if !sc.faults.is_empty() {
            ctx.nontrivial = true;
        }
        Ok(())
    }

    fn shrink(&self, sc: &Sc, emit: &mut dyn FnMut(Sc) -> bool) {
        macro_rules! push {
            ($e:expr) => {
                if emit($e) {
                    return;
                }
            };
        }
        for f in shrink_vec(&sc.faults) {
            push!(Sc { faults: f, ..sc.clone() });
        }
        for l in shrink_vec(&sc.lookups) {
            push!(Sc { lookups: l, ..sc.clone() });
        }
        if sc.files.len() > 1 {
            for i in 0..sc.files.len() {
                let mut s = sc.clone();
                s.files.remove(i);
                // fault file indices are taken modulo the number of files
                push!(s);
            }
        }
        if sc.via_api {
            push!(Sc { via_api: false, ..sc.clone() });
        }
        if sc.migrate != 0 {
            push!(Sc { migrate: 0, ..sc.clone() });
        }
        if sc.neighbour.is_some() {
            push!(Sc { neighbour: None, ..sc.clone() });
        }
        for (i, f) in sc.files.iter().enumerate() {
            for c in shrink_vec(&f.content) {
                let mut s = sc.clone();
                s.files[i].content = c;
                push!(s);
            }
            if f.algs.len() > 1 {
                for a in shrink_vec(&f.algs) {
                    if !a.is_empty() {
                        let mut s = sc.clone();
                        s.files[i].algs = a;
                        push!(s);
                    }
                }
            }
            if f.size {
                let mut s = sc.clone();
                s.files[i].size = false;
                push!(s);
            }
        }
    }

    fn sweep(&self, sc: &Sc, run: u64, tier: Tier) -> Vec<Sc> {
        let every = if tier == Tier::Quick { 24 } else { 96 };
        if run % every != 0 {
            return Vec::new();
        }
        // a bit flip at every byte offset of every small file (complete over offsets)
        let mut out = Vec::new();
        for (i, f) in sc.files.iter().enumerate() {
            if f.content.len() <= 200 {
                for off in 0..f.content.len() {
                    out.push(Sc {
                        faults: vec![Fault::BitFlip {
                            file: i,
                            off,
                            bit: ((off * 5 + run as usize) % 8) as u8,
                        }],
                        lookups: vec![],
                        via_api: false,
                        migrate: 0,
                        ..sc.clone()
                    });
                }
            }
        }
        out
    }

    fn classify(&self, _sc: &Sc, _v: &Violation) -> String {
        String::new()
    }

    fn work_factor(&self) -> Option<u64> {
        Some(1024)
    }
    fn rule(&self) -> String {
        "Each run stores 1..5 generated files (distfiles incl. DIST_SUBDIR names with colliding tails and patch \
         look-alikes that are distfiles; patch files; contents empty/binary/text/patch text with $NetBSD lines) in a \
         scratch directory, records them (harness-rendered distinfo or through calculate_*/Entry::new/insert/as_bytes), \
         then alternates verification rounds with 0..4 storage faults. A round compares verify_size, \
         verify_checksum for all six algorithms, verify_checksums and find_entry for every file, and find_entry / \
         NotFound behaviour for extra lookup paths, with the model verdict. Non-trivial = at least one fault in the \
         scenario; distinct = distinct schedule signatures (hash of the sequence of stores, fault kinds with whether \
         they fired, and verification steps). A subset of runs sweeps a bit flip at every byte offset of every file \
         of at most 200 bytes (sweep_evaluations; complete over offsets)."
            .to_string()
    }
    fn components_real(&self) -> Vec<&'static str> {
        vec![
            "pkgsrc::distinfo::Distinfo::{from_bytes, as_bytes, insert, find_entry, verify_size, verify_checksum, verify_checksums, calculate_size, calculate_checksum}",
            "pkgsrc::distinfo::{Entry::new, EntryType::from}",
            "pkgsrc::digest (hash_file / hash_patch) and the RustCrypto hashers",
            "the kernel file system (tmpfs scratch directory): File::open, metadata, read",
        ]
    }
    fn components_stub(&self) -> Vec<&'static str> {
        vec!["the producer of the files and of the record (harness model)", "storage faults (applied by rewriting files / re-rendering the record)"]
    }
    fn assumptions(&self) -> Vec<&'static str> {
        vec![
            "no algorithm is recorded twice for one file; sizes are recorded for distfiles only",
            "path fields inside errors are not compared",
            "when a file is both unrecorded for the requested size/algorithm and missing on disk, either Missing* or Io is accepted",
            "recorded hashes are corrupted by digit change, truncation or extension, never by letter case",
        ]
    }
    fn expected_probes(&self) -> Vec<&'static str> {
        vec![
            "verdict-size-ok",
            "verdict-size-mismatch",
            "verdict-missing-size",
            "verdict-checksum-ok",
            "verdict-checksum-mismatch",
            "verdict-missing-checksum",
            "verdict-not-found",
            "verdict-recorded-but-missing-file",
            "shortest-tail-among-several",
            "shortest-tail-chosen-over-own-name",
            "record-built-through-api",
            "lookup-interleaved-with-insert",
            "verified-with-the-inserted-distinfo-itself",
            "entry-verify-under-alias-name",
            "name-not-utf8",
            "entry-re-inserted-over-a-decoy",
        ]
    }
}
