//! C06 - best_match: the winner of a pairwise reduction does not depend on the
//! order, grouping or duplication with which candidates reach the reducers.
//!
//! R replicas each hold a current best for one compiled pattern; candidates
//! are delivered in scripted orders (with duplicates and late re-deliveries),
//! then replicas are merged along a scripted merge tree.  The only merge
//! function is the real `Pattern::best_match`.

use crate::framework::*;
use crate::rng::Rng;
use pkgsrc::Pattern;
use serde::{Deserialize, Serialize};

#[derive(Clone, Debug, Serialize, Deserialize)]
pub struct Delivery {
    pub name: String,
    /// deliver as best_match(new, current) instead of best_match(current, new)
    pub new_first: bool,
}

#[derive(Clone, Debug, Serialize, Deserialize)]
pub struct Merge {
    pub from: usize,
    pub into: usize,
    pub from_first: bool,
}

#[derive(Clone, Debug, Serialize, Deserialize)]
pub struct Sc {
    pub pattern: String,
    pub replicas: Vec<Vec<Delivery>>,
    pub merges: Vec<Merge>,
}

pub struct C06;

const BASES: [&str; 6] = ["foo", "bar", "foo-bar", "fo", "baz", "f"];
const VERSIONS: [&str; 60] = [
    // characters the dewey rule ignores (non-ASCII of 2, 3 and 4 bytes, ASCII punctuation) next to digits
    "1.0\u{20ac}5", "1\u{2003}2", "2.0\u{212a}1", "1.0\u{e9}1", "1.0\u{1f600}3", "1+2", "1~1", "1.0\u{20ac}nb3", "\u{20ac}1.0",
    // digit runs at and beyond the i64 range (all such values saturate to the same component)
    "9223372036854775807", "9223372036854775808", "99999999999999999999", "9223372036854775807.0", "18446744073709551616",
    "1234567890123456789", "1234567890123456788", "0000000000000000001", "999999999999999999", "9223372036854775806",
    "1.1234567890123456789",
    "1.0", "1", "1.0.0", "1.00", "1.0nb1", "1.0nb0", "1.0nb", "1nb1", "1.0nb2", "1.0alpha", "1.0alpha1", "1.0beta",
    "1.0rc1", "1.0rc", "1.0pl1", "1.0pl", "1.0a", "1.0b", "1.0A", "1a", "2.0", "2", "0.9", "0", "3", "3.0", "10.0",
    "1.10", "1.9", "1.0_1", "1_0", "1.0.", "", "1..0", "01.0", "1.0.0.0.1", "2.0beta4nb7", "20240101", "1.0+x", "1.0~",
];

fn gen_pattern(rng: &mut Rng) -> String {
    let v1 = *rng.pick(&VERSIONS);
    let v2 = *rng.pick(&VERSIONS);
    match rng.below(16) {
        12 => "foo*".to_string(),
        13 => "*".to_string(),
        14 => "fo?*".to_string(),
        15 => "{foo,bar}*".to_string(),
        0 => format!("foo>={}", v1),
        1 => format!("foo>{}", v1),
        2 => format!("foo<{}", v1),
        3 => format!("foo>={}<{}", v1, v2),
        4 => "foo>0".to_string(),
        5 => "foo-[0-9]*".to_string(),
        6 => "fo*-[0-9]*".to_string(),
        7 => "*-[0-9]*".to_string(),
        8 => "{foo,bar}-[0-9]*".to_string(),
        9 => format!("{{foo,bar}}>={}", v1),
        10 => "{foo,bar,foo-bar}-*".to_string(),
        _ => format!("foo-{}", v1),
    }
}

fn gen_name(rng: &mut Rng) -> String {
    match rng.below(24) {
        0 => "foo".to_string(),
        1 => "foo-".to_string(),
        2 => "-1.0".to_string(),
        // names without '-': their version is empty
        3 => rng.pick_str(&["foo1", "fooz", "foo2.0", "bar9", "foo1.0nb3", "foo0"]).to_string(),
        _ => {
            let b = if rng.chance(3, 5) { "foo" } else { *rng.pick(&BASES) };
            format!("{}-{}", b, rng.pick(&VERSIONS))
        }
    }
}

fn version_of(name: &str) -> &str {
    match name.rfind('-') {
        Some(i) => &name[i + 1..],
        None => "",
    }
}

/// Independent model of the dewey rule on the *numeric sub-domain*: versions made
/// only of digit runs (each below 2^63), '.', '_', characters the rule ignores
/// (non-ASCII characters and ASCII punctuation other than '.', '_') and one
/// trailing "nb<digits>".
/// On this sub-domain the rule is unambiguous (digit run = its value, '.' and
/// '_' = 0, missing components = 0, the revision decides last) and the pinned
/// tree agrees with it, so it can be used as an oracle without claiming C01.
fn numeric_model(v: &str) -> Option<(Vec<u128>, u128)> {
    let (body, rev) = match v.find("nb") {
        Some(i) => {
            let r = &v[i + 2..];
            if !r.bytes().all(|c| c.is_ascii_digit()) || r.len() > 18 {
                return None;
            }
            (&v[..i], if r.is_empty() { 0 } else { r.parse::<u128>().ok()? })
        }
        None => (v, 0),
    };
    let b = body.as_bytes();
    let mut comps = Vec::new();
    let mut i = 0;
    while i < b.len() {
        if b[i].is_ascii_digit() {
            let mut j = i;
            while j < b.len() && b[j].is_ascii_digit() {
                j += 1;
            }
            let n: u128 = body[i..j].parse().ok()?;
            if j - i > 30 || n >= (i64::MAX as u128) {
                return None;
            }
            comps.push(n);
            i = j;
        } else if b[i] == b'.' || b[i] == b'_' {
            comps.push(0);
            i += 1;
        } else if b[i] >= 0x80 {
            // a non-ASCII character: ignored as a whole
            let ch = body[i..].chars().next()?;
            i += ch.len_utf8();
        } else if b[i].is_ascii_punctuation() && !matches!(b[i], b'-' | b'{' | b'}' | b'<' | b'>') {
            // other ASCII punctuation: ignored
            i += 1;
        } else {
            return None;
        }
    }
    Some((comps, rev))
}

fn numeric_cmp(a: &str, b: &str) -> Option<std::cmp::Ordering> {
    let (ca, ra) = numeric_model(version_of(a))?;
    let (cb, rb) = numeric_model(version_of(b))?;
    let n = ca.len().max(cb.len());
    for i in 0..n {
        let x = ca.get(i).copied().unwrap_or(0);
        let y = cb.get(i).copied().unwrap_or(0);
        if x != y {
            return Some(x.cmp(&y));
        }
    }
    Some(ra.cmp(&rb))
}

/// Is version(a) strictly greater than version(b), in the order the library
/// itself exposes through a single-bound pattern?
fn strictly_greater(a: &str, b: &str) -> Result<bool, String> {
    let va = version_of(a);
    let vb = version_of(b);
    if va.contains(['{', '}', '<', '>']) || vb.contains(['{', '}', '<', '>']) {
        return Err("version with pattern metacharacters".into());
    }
    let p = Pattern::new(&format!("x>{}", vb)).map_err(|e| format!("{}", e))?;
    Ok(p.matches(&format!("x-{}", va)))
}

/// Reference winner of a multiset: among matching candidates, one with no
/// other strictly greater; ties to the byte-wise smallest name.
fn reference(pat: &Pattern, names: &[&str]) -> Result<Option<String>, String> {
    let matching: Vec<&str> = names.iter().cloned().filter(|n| pat.matches(n)).collect();
    if matching.is_empty() {
        return Ok(None);
    }
    let mut maximal: Vec<&str> = Vec::new();
    for &c in &matching {
        let mut beaten = false;
        for &d in &matching {
            if strictly_greater(d, c)? {
                beaten = true;
                break;
            }
        }
        if !beaten {
            maximal.push(c);
        }
    }
    if maximal.is_empty() {
        return Err("the exposed order has a cycle: every matching candidate is beaten by another".into());
    }
    maximal.sort();
    Ok(Some(maximal[0].to_string()))
}

/// One pairwise reduction step with its invariants.
fn merge_step(
    pat: &Pattern,
    a: &str,
    b: &str,
    ctx: &mut Ctx,
    what: &str,
) -> Result<Option<String>, Violation> {
    let r = pat.best_match(a, b);
    let ma = pat.matches(a);
    let mb = pat.matches(b);
    match r {
        None => ensure!(
            !ma && !mb,
            "none-although-a-candidate-matches",
            "{}: best_match({:?}, {:?}) is None but matches() says {} / {}",
            what,
            a,
            b,
            ma,
            mb
        ),
        Some(x) => {
            ensure!(
                ma || mb,
                "some-although-none-matches",
                "{}: best_match({:?}, {:?}) = {:?} but neither matches",
                what,
                a,
                b,
                x
            );
            ensure!(
                x == a || x == b,
                "result-not-an-argument",
                "{}: best_match({:?}, {:?}) = {:?}",
                what,
                a,
                b,
                x
            );
            ensure!(
                pat.matches(x),
                "result-does-not-match",
                "{}: best_match({:?}, {:?}) = {:?} which does not match the pattern",
                what,
                a,
                b,
                x
            );
        }
    }
    let r2 = pat.best_match(b, a);
    ensure!(
        r == r2,
        "argument-order-dependent",
        "{}: best_match({:?}, {:?}) = {:?} but best_match({:?}, {:?}) = {:?}",
        what,
        a,
        b,
        r,
        b,
        a,
        r2
    );
    if ma && mb {
        // on the numeric sub-domain the winner is fixed by the dewey rule itself
        if let Some(ord) = numeric_cmp(a, b) {
            ctx.probe("numeric-subdomain-pair");
            let want = match ord {
                std::cmp::Ordering::Greater => a,
                std::cmp::Ordering::Less => b,
                std::cmp::Ordering::Equal => {
                    if a <= b {
                        a
                    } else {
                        b
                    }
                }
            };
            ensure!(
                r == Some(want),
                "winner-differs-from-dewey-rule",
                "{}: best_match({:?}, {:?}) = {:?}; under the dewey rule (digit runs by value, '.'/'_' = 0, zero padding, nb revision last; ties to the smaller name) the winner is {:?}",
                what,
                a,
                b,
                r,
                want
            );
        }
        if !a.contains('-') || !b.contains('-') {
            ctx.probe("both-match-one-without-dash");
        }
        if a == b {
            ctx.probe("identical-names");
        } else if let (Ok(false), Ok(false)) = (strictly_greater(a, b), strictly_greater(b, a)) {
            if version_of(a) != version_of(b) {
                ctx.probe("padded-or-equivalent-tie");
            }
            let base = |n: &str| n.rfind('-').map(|i| n[..i].to_string());
            if base(a) != base(b) {
                ctx.probe("tie-different-base");
            }
        }
    }
    Ok(r.map(|s| s.to_string()))
}

impl Property for C06 {
    type Sc = Sc;

    fn id(&self) -> &'static str {
        "C06"
    }
    fn level(&self) -> &'static str {
        "exploration"
    }
    fn runs(&self, tier: Tier) -> u64 {
        match tier {
            Tier::Quick => 50_000,
            Tier::Thorough => 12_000_000,
        }
    }

    fn generate(&self, rng: &mut Rng, _run: u64, _tier: Tier) -> Sc {
        let pattern = gen_pattern(rng);
        let ncand = rng.urange(2, 8);
        let mut cands: Vec<String> = (0..ncand).map(|_| gen_name(rng)).collect();
        if rng.chance(1, 4) {
            // force equal names
            let c = cands[0].clone();
            cands.push(c);
        }
        let nrep = rng.urange(2, 4);
        let partitioned = rng.chance(1, 2);
        let mut replicas: Vec<Vec<Delivery>> = vec![Vec::new(); nrep];
        if partitioned {
            for c in &cands {
                let r = rng.usize_below(nrep);
                replicas[r].push(Delivery {
                    name: c.clone(),
                    new_first: rng.chance(1, 2),
                });
            }
        } else {
            for r in replicas.iter_mut() {
                let mut order: Vec<usize> = (0..cands.len()).collect();
                rng.shuffle(&mut order);
                for i in order {
                    r.push(Delivery {
                        name: cands[i].clone(),
                        new_first: rng.chance(1, 2),
                    });
                }
            }
        }
        // duplicate and late re-deliveries
        for r in replicas.iter_mut() {
            if r.is_empty() {
                continue;
            }
            let k = if rng.chance(1, 2) { rng.urange(1, 3) } else { 0 };
            for _ in 0..k {
                let src = rng.usize_below(r.len());
                let d = Delivery {
                    name: r[src].name.clone(),
                    new_first: rng.chance(1, 2),
                };
                let at = if rng.chance(1, 2) { r.len() } else { rng.urange(0, r.len()) };
                r.insert(at, d);
            }
        }
        // merge tree
        let mut alive: Vec<usize> = (0..nrep).collect();
        let mut merges = Vec::new();
        while alive.len() > 1 {
            let i = rng.usize_below(alive.len());
            let from = alive.remove(i);
            let into = *rng.pick(&alive);
            merges.push(Merge {
                from,
                into,
                from_first: rng.chance(1, 2),
            });
        }
        Sc {
            pattern,
            replicas,
            merges,
        }
    }

    fn execute(&self, sc: &Sc, ctx: &mut Ctx) -> Outcome {
        let pat = match Pattern::new(&sc.pattern) {
            Ok(p) => p,
            Err(_) => return Ok(()), // not a valid pattern: nothing to reduce
        };
        let mut state: Vec<Option<String>> = vec![None; sc.replicas.len()];
        let mut seen_all: Vec<&str> = Vec::new();
        for (ri, dels) in sc.replicas.iter().enumerate() {
            let mut seen: Vec<&str> = Vec::new();
            for (di, d) in dels.iter().enumerate() {
                ctx.step("deliver", ri as u64, crate::rng::hash_str(&d.name));
                if seen.contains(&d.name.as_str()) {
                    ctx.fault("duplicate_delivery");
                    if state[ri].as_deref() != Some(d.name.as_str()) && pat.matches(&d.name) {
                        ctx.probe("duplicate-delivered-after-beaten");
                    }
                }
                if di > 0 {
                    ctx.nontrivial = true;
                }
                seen.push(&d.name);
                let what = format!("replica {} delivery {}", ri, di);
                state[ri] = match &state[ri] {
                    None => merge_step(&pat, &d.name, &d.name, ctx, &what)?,
                    Some(cur) => {
                        let cur = cur.clone();
                        if d.new_first {
                            ctx.fault("reorder");
                            merge_step(&pat, &d.name, &cur, ctx, &what)?
                        } else {
                            merge_step(&pat, &cur, &d.name, ctx, &what)?
                        }
                    }
                };
            }
            // replica-local convergence: equals the reference over what it saw
            match reference(&pat, &seen) {
                Ok(want) => ensure!(
                    state[ri] == want,
                    "replica-winner-differs-from-maximum",
                    "pattern {:?}: replica {} reduced {:?} to {:?}, the maximum under the version order (ties to the smaller name) is {:?}",
                    sc.pattern,
                    ri,
                    seen,
                    state[ri],
                    want
                ),
                Err(e) => {
                    if e.contains("cycle") {
                        fail!("order-has-cycle", "pattern {:?}, candidates {:?}: {}", sc.pattern, seen, e);
                    }
                }
            }
            seen_all.extend(seen);
        }
        // merge tree
        let mut absorbed = vec![false; state.len()];
        for (mi, m) in sc.merges.iter().enumerate() {
            if m.from >= state.len() || m.into >= state.len() || m.from == m.into || absorbed[m.from] || absorbed[m.into] {
                continue;
            }
            ctx.step("merge", m.from as u64, m.into as u64);
            ctx.fault("regroup");
            let what = format!("merge {} ({} into {})", mi, m.from, m.into);
            let a = state[m.from].clone();
            let b = state[m.into].clone();
            state[m.into] = match (a, b) {
                (None, x) | (x, None) => x,
                (Some(p), Some(q)) => {
                    if m.from_first {
                        merge_step(&pat, &p, &q, ctx, &what)?
                    } else {
                        merge_step(&pat, &q, &p, ctx, &what)?
                    }
                }
            };
            absorbed[m.from] = true;
        }
        let remaining: Vec<usize> = (0..state.len()).filter(|i| !absorbed[*i]).collect();
        if remaining.len() == 1 {
            let fin = &state[remaining[0]];
            match reference(&pat, &seen_all) {
                Ok(want) => {
                    if want.is_none() {
                        ctx.probe("none-match");
                    }
                    if seen_all.iter().filter(|n| pat.matches(n)).count() == 1 {
                        ctx.probe("exactly-one-matches");
                    }
                    ensure!(
                        *fin == want,
                        "merged-winner-differs-from-maximum",
                        "pattern {:?}: merging the replicas gave {:?}; the maximum of all candidates {:?} is {:?}",
                        sc.pattern,
                        fin,
                        seen_all,
                        want
                    );
                }
                Err(e) => {
                    if e.contains("cycle") {
                        fail!("order-has-cycle", "pattern {:?}: {}", sc.pattern, e);
                    }
                }
            }
        }
        Ok(())
    }

    fn shrink(&self, sc: &Sc, emit: &mut dyn FnMut(Sc) -> bool) {
        macro_rules! push {
            ($e:expr) => {
                if emit($e) {
                    return;
                }
            };
        }
        for (ri, r) in sc.replicas.iter().enumerate() {
            for d in shrink_vec(r) {
                let mut s = sc.clone();
                s.replicas[ri] = d;
                push!(s);
            }
        }
        for m in shrink_vec(&sc.merges) {
            push!(Sc { merges: m, ..sc.clone() });
        }
        if sc.replicas.len() > 1 {
            // collapse into one replica
            let all: Vec<Delivery> = sc.replicas.iter().flatten().cloned().collect();
            push!(Sc {
                pattern: sc.pattern.clone(),
                replicas: vec![all],
                merges: vec![],
            });
        }
        for (ri, r) in sc.replicas.iter().enumerate() {
            for (di, d) in r.iter().enumerate() {
                if d.new_first {
                    let mut s = sc.clone();
                    s.replicas[ri][di].new_first = false;
                    push!(s);
                }
            }
        }
    }

    fn classify(&self, _sc: &Sc, _v: &Violation) -> String {
        String::new()
    }

    fn rule(&self) -> String {
        "Each run draws a pattern (dewey one/two-bound, glob, alternate, plain), a multiset of 2..9 candidate names \
         around it (matching and non-matching bases, versions that tie after zero padding, nb revisions, modifiers, \
         equal names) and a schedule: 2..4 replicas, each with a delivery order (either all candidates permuted, or a \
         partition), duplicate and late re-deliveries, the side on which each new candidate is passed, and a merge \
         tree among replicas with argument sides. Non-trivial = at least two deliveries on one replica; distinct = \
         distinct schedule signatures (hash of the sequence of (replica, candidate) deliveries, duplicates, \
         argument-side flips and merges)."
            .to_string()
    }
    fn components_real(&self) -> Vec<&'static str> {
        vec!["pkgsrc::Pattern::{new, matches, best_match}", "pkgsrc::PkgName, dewey comparison"]
    }
    fn components_stub(&self) -> Vec<&'static str> {
        vec!["the reducers (replicas and merge tree are harness actors scheduled by the scenario)"]
    }
    fn assumptions(&self) -> Vec<&'static str> {
        vec![
            "the reference maximum uses the version order the library exposes through single-bound patterns (its agreement with pkg_install is C01, not claimed)",
            "candidate versions contain no '{', '}', '<' or '>'",
            "on the numeric sub-domain (digit runs below 2^63, '.', '_', one trailing nb<digits>) the winner of each pair is additionally compared with an independent model of the dewey rule",
        ]
    }
    fn expected_probes(&self) -> Vec<&'static str> {
        vec![
            "tie-different-base",
            "identical-names",
            "padded-or-equivalent-tie",
            "none-match",
            "exactly-one-matches",
            "duplicate-delivered-after-beaten",
            "both-match-one-without-dash",
            "numeric-subdomain-pair",
        ]
    }
}
