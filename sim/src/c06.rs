//! C06 - best_match: the winner of a pairwise reduction does not depend on the
//! order, grouping or duplication with which candidates reach the reducers.
//!
//! R replicas each hold a current best for one compiled pattern; candidates
//! are delivered in scripted orders (with duplicates and late re-deliveries),
//! then replicas are merged along a scripted merge tree.  The only merge
//! function is the real `Pattern::best_match`.

use crate::framework::*;
use crate::rng::Rng;
use pkgsrc::Pattern;
use serde::{Deserialize, Serialize};

#[derive(Clone, Debug, Serialize, Deserialize)]
pub struct Delivery {
    pub name: String,
    /// deliver as best_match(new, current) instead of best_match(current, new)
    pub new_first: bool,
}

#[derive(Clone, Debug, Serialize, Deserialize)]
pub struct Merge {
    pub from: usize,
    pub into: usize,
    pub from_first: bool,
}

#[derive(Clone, Debug, Serialize, Deserialize)]
pub struct Sc {
    pub pattern: String,
    pub replicas: Vec<Vec<Delivery>>,
    pub merges: Vec<Merge>,
    /// a second compiled pattern that stays alive and is consulted in turn with
    /// the one under test (every merge step first asks it about both
    /// candidates); `clone_mode` says what happened to the pattern under test
    /// before: 0 nothing, 1 cloned and the original dropped, 2 cloned and the
    /// clone dropped, 3 cloned and both kept
    #[serde(default)]
    pub twin: Option<TwinPattern>,
    /// execute the whole run on a thread of its own: per-thread state inside the
    /// library (a cache, a pool) starts out empty, so that a long reduction meets
    /// every fill level of it from zero on, whatever this worker ran before
    #[serde(default)]
    pub fresh_thread: bool,
    /// 0: every call is made by the thread that runs the scenario.  Otherwise a second
    /// caller thread exists for this run and library call number i (compilations
    /// included) is made by it when bit i mod 63 is set: objects are created on one
    /// thread and used on the other
    #[serde(default)]
    pub migrate: u64,
}

#[derive(Clone, Debug, Serialize, Deserialize)]
pub struct TwinPattern {
    pub pattern: String,
    pub clone_mode: u8,
    /// the second pattern is compiled before the one under test (and is alive while
    /// that one is compiled) instead of after it
    #[serde(default)]
    pub first: bool,
}

pub struct C06;

/// What a merge step needs besides the pattern under test: the other live pattern
/// and the plan saying which caller thread makes which library call.
struct Env<'a> {
    twin: Option<&'a Pattern>,
    helper: &'a Option<Helper>,
    mask: u64,
    calls: std::cell::Cell<u64>,
}

impl Env<'_> {
    fn next(&self) -> u64 {
        let n = self.calls.get();
        self.calls.set(n + 1);
        n
    }
}

// (among them bases of which one is a prefix of another and continues with a byte below
// '-' or with "-<digit>": there the whole-name order and the (base, version) order differ)
const BASES: [&str; 15] = ["foo", "bar", "foo-bar", "fo", "baz", "f", "fox-bar", "fxo", "ber", "ab", "ad", "bar-bar", "foo+", "foo-0", "foo+-0"];
const VERSIONS: [&str; 112] = [
    // a component saturated to i64::MAX meeting a negative modifier or a small number at the same position
    "1.99999999999999999999", "1.alpha", "1.beta1", "1.rc", "1.pre2", "1.5", "1.9223372036854775807", "1.0", "1alpha", "199999999999999999999",
    "1.-", "1.99999999999999999999nb1",
    // modifiers in every spelling the rule knows ('pre' = 'rc', case-insensitive), letters against numbers
    "1.0pre1", "1.0pre", "1.0pre2", "1.0PRE1", "1.0RC1", "1.0Rc2", "1.0ALPHA", "1.0Alpha1", "1.0BETA", "1.0Beta2", "1.0PL1", "1.0Pl",
    "1.0rc2", "1.0beta1", "1.0alpha2", "1.0pl2", "2.0pre1", "2.0rc1", "2.0alpha1", "2.0a", "2.0B", "2.0b", "1.0z", "1.0Z",
    "1.0.1", "1.0.2", "1.0.26", "1.0.27", "1.0.65", "1.0.97", "1.0.98", "1.0.122", "1.0c", "1.0C", "1.0aa", "1.0ab", "1.0a1", "1.0.0.1",
    "1.0alphabet", "1.0prefix",
    // characters the dewey rule ignores (non-ASCII of 2, 3 and 4 bytes, ASCII punctuation) next to digits
    "1.0\u{20ac}5", "1\u{2003}2", "2.0\u{212a}1", "1.0\u{e9}1", "1.0\u{1f600}3", "1+2", "1~1", "1.0\u{20ac}nb3", "\u{20ac}1.0",
    // digit runs at and beyond the i64 range (all such values saturate to the same component)
    "9223372036854775807", "9223372036854775808", "99999999999999999999", "9223372036854775807.0", "18446744073709551616",
    "1234567890123456789", "1234567890123456788", "0000000000000000001", "999999999999999999", "9223372036854775806",
    "1.1234567890123456789",
    "1.0", "1", "1.0.0", "1.00", "1.0nb1", "1.0nb0", "1.0nb", "1nb1", "1.0nb2", "1.0alpha", "1.0alpha1", "1.0beta",
    "1.0rc1", "1.0rc", "1.0pl1", "1.0pl", "1.0a", "1.0b", "1.0A", "1a", "2.0", "2", "0.9", "0", "3", "3.0", "10.0",
    "1.10", "1.9", "1.0_1", "1_0", "1.0.", "", "1..0", "01.0", "1.0.0.0.1", "2.0beta4nb7", "20240101", "1.0+x", "1.0~",
];

/// patterns that do not compile
const REJECTED: [&str; 10] = ["{foo,bar-[0-9]*", "foo-{1,2", "{{a,b}-1.0", "foo{", "{", "{a,{b,c}", "foo}-1.0", "foo>=1.0<", "foo-[0-9*", "{foo,bar}}-1.0"];

fn gen_pattern(rng: &mut Rng) -> String {
    let v1 = *rng.pick(&VERSIONS);
    let v2 = *rng.pick(&VERSIONS);
    if rng.chance(1, 150) {
        // scale: one group of more than 256 alternatives at the very start; the one that
        // matches starts with a glob character, a nested group, or is empty
        let k = *rng.pick(&[255usize, 256, 257, 300, 1100]);
        let filler: Vec<String> = (0..k).map(|i| format!("x{}", i)).collect();
        let hit = rng.pick_str(&["[f]oo", "?oo", "*oo", "{foo,qq}", "foo", ""]);
        let at = if rng.chance(1, 2) { filler.len() } else { rng.urange(0, filler.len()) };
        let mut alts = filler;
        alts.insert(at, hit.to_string());
        return format!("{{{}}}{}", alts.join(","), if hit.is_empty() { "foo-[0-9]*" } else { "-[0-9]*" });
    }
    match rng.below(18) {
        // globs whose only metacharacter is a '?' or a bracket set, not in first position
        16 => rng.pick_str(&["foo-?.0", "fo?-1.0", "foo-1.?", "foo-1.0nb?"]).to_string(),
        17 => rng.pick_str(&["foo-[0-9].0", "foo-1.[0-9]", "foo-[12].0", "fo[o]-1.0", "foo-[!2].0"]).to_string(),
        // groups nested inside alternatives, several groups, empty alternatives
        11 if rng.chance(1, 2) => rng
            .pick_str(&[
                "{foo,ba{r,z}}-[0-9]*",
                "{foo{,-bar},baz}-[0-9]*",
                "fo{o,{o,x}-bar}>=1.0",
                "{foo,bar}{,-bar}-[0-9]*",
                "{f{o,x}o,b{a,e}{r,z}}-1.0",
                "{a{b,c},d}-1.0",
                "{foo,{bar,{baz,f}}}*",
                "{foo,bar}-{1,2}.0",
                "foo{-bar,}-[0-9]*",
                "{foo,}*",
                "foo{}-1.0",
                "{foo,bar,}-[0-9]*",
                "fo{o,}{,-bar}>=1.0",
            ])
            .to_string(),
        12 => "foo*".to_string(),
        13 => "*".to_string(),
        14 => "fo?*".to_string(),
        15 => "{foo,bar}*".to_string(),
        0 => format!("foo>={}", v1),
        1 => format!("foo>{}", v1),
        2 => {
            if rng.chance(1, 2) {
                format!("foo<{}", v1)
            } else {
                format!("foo<={}", v1)
            }
        }
        3 => match rng.below(4) {
            0 => format!("foo>={}<{}", v1, v2),
            1 => format!("foo>{}<={}", v1, v2),
            2 => format!("foo>={}<={}", v1, v2),
            _ => format!("foo>{}<{}", v1, v2),
        },
        4 => "foo>0".to_string(),
        5 => "foo-[0-9]*".to_string(),
        6 => "fo*-[0-9]*".to_string(),
        7 => "*-[0-9]*".to_string(),
        8 => "{foo,bar}-[0-9]*".to_string(),
        9 => format!("{{foo,bar}}>={}", v1),
        10 => "{foo,bar,foo-bar}-*".to_string(),
        _ => format!("foo-{}", v1),
    }
}

fn gen_name(rng: &mut Rng) -> String {
    if rng.chance(1, 120) {
        // scale: a version of more than 255 / 256 components; pairs of these agree far
        // beyond the 256th component and differ only at the end
        let k = *rng.pick(&[255usize, 256, 257, 300, 1100]);
        return format!("foo-{}{}", "1.".repeat(k), rng.pick_str(&["1", "2", "1nb1", "0"]));
    }
    match rng.below(25) {
        // names with blanks at an edge: they are other names (a plain pattern does not
        // match them, a result must be the argument itself, byte for byte)
        24 => rng
            .pick_str(&["foo-1.0 ", "foo-1.0\t", " foo-1.0", "foo-1.0\n", "foo-2.0 ", "foo -1.0", "foo-1.0\u{a0}", "bar-1.0 "])
            .to_string(),
        0 => "foo".to_string(),
        1 => "foo-".to_string(),
        2 => "-1.0".to_string(),
        // names without '-': their version is empty
        3 => rng.pick_str(&["foo1", "fooz", "foo2.0", "bar9", "foo1.0nb3", "foo0"]).to_string(),
        _ => {
            let b = if rng.chance(3, 5) { "foo" } else { *rng.pick(&BASES) };
            format!("{}-{}", b, rng.pick(&VERSIONS))
        }
    }
}

fn version_of(name: &str) -> &str {
    match name.rfind('-') {
        Some(i) => &name[i + 1..],
        None => "",
    }
}

/// Independent model of the dewey rule, written from the property text (C06
/// says "under the dewey order"; C01 spells the rule out): a version is read
/// left to right as components - a digit run = its value; '.', '_' and "pl" = 0;
/// "alpha", "beta", "rc"/"pre" = -3, -2, -1; any other ASCII letter = 0 followed
/// by its alphabet rank; "nb<N>" sets the package revision; letters and
/// modifiers case-insensitive; every other character ignored.  Components are
/// compared position by position with missing components read as 0; the
/// revision decides only when all components tie.
///
/// The model declines (None) where the text leaves room: digit runs of more than
/// 18 digits or at/after i64::MAX, an "nb" that is not spelled in lower case,
/// an "nb" followed by more than 18 digits, and versions containing pattern
/// metacharacters.
///
/// `Letters::AsciiCode` is NOT the rule: it is the pinned library's deviation
/// (a letter weighs the ASCII code of its lower-case form instead of its
/// alphabet rank), modelled only so that the known finding can be told apart
/// from any other disagreement.
#[derive(Clone, Copy, PartialEq, Eq)]
enum Letters {
    Rank,
    AsciiCode,
}

fn has_prefix_ci(b: &[u8], word: &[u8]) -> bool {
    b.len() >= word.len() && b[..word.len()].eq_ignore_ascii_case(word)
}

fn dewey_model(v: &str, letters: Letters) -> Option<(Vec<i128>, i128)> {
    let b = v.as_bytes();
    let mut comps: Vec<i128> = Vec::new();
    let mut rev: i128 = 0;
    let mut i = 0;
    while i < b.len() {
        let c = b[i];
        if c.is_ascii_digit() {
            let mut j = i;
            while j < b.len() && b[j].is_ascii_digit() {
                j += 1;
            }
            if j - i > 30 {
                return None;
            }
            let n: u128 = v[i..j].parse().ok()?;
            if n >= (i64::MAX as u128) {
                return None;
            }
            comps.push(n as i128);
            i = j;
        } else if c == b'.' || c == b'_' {
            comps.push(0);
            i += 1;
        } else if has_prefix_ci(&b[i..], b"alpha") {
            comps.push(-3);
            i += 5;
        } else if has_prefix_ci(&b[i..], b"beta") {
            comps.push(-2);
            i += 4;
        } else if has_prefix_ci(&b[i..], b"pre") {
            comps.push(-1);
            i += 3;
        } else if has_prefix_ci(&b[i..], b"rc") {
            comps.push(-1);
            i += 2;
        } else if has_prefix_ci(&b[i..], b"pl") {
            comps.push(0);
            i += 2;
        } else if has_prefix_ci(&b[i..], b"nb") {
            if &b[i..i + 2] != b"nb" {
                return None; // "NB": whether the revision marker is case-insensitive is left open
            }
            let mut j = i + 2;
            while j < b.len() && b[j].is_ascii_digit() {
                j += 1;
            }
            if j - (i + 2) > 18 {
                return None;
            }
            rev = if j == i + 2 { 0 } else { v[i + 2..j].parse::<i128>().ok()? };
            i = j;
        } else if c.is_ascii_alphabetic() {
            comps.push(0);
            let lower = c.to_ascii_lowercase();
            comps.push(match letters {
                Letters::Rank => (lower - b'a') as i128 + 1,
                Letters::AsciiCode => lower as i128,
            });
            i += 1;
        } else if c >= 0x80 {
            // a non-ASCII character: ignored as a whole
            let ch = v[i..].chars().next()?;
            i += ch.len_utf8();
        } else if matches!(c, b'-' | b'{' | b'}' | b'<' | b'>') {
            return None;
        } else {
            // any other ASCII character (punctuation, blank, control): ignored
            i += 1;
        }
    }
    Some((comps, rev))
}

fn model_cmp(a: &str, b: &str, letters: Letters) -> Option<std::cmp::Ordering> {
    let (ca, ra) = dewey_model(version_of(a), letters)?;
    let (cb, rb) = dewey_model(version_of(b), letters)?;
    let n = ca.len().max(cb.len());
    for i in 0..n {
        let x = ca.get(i).copied().unwrap_or(0);
        let y = cb.get(i).copied().unwrap_or(0);
        if x != y {
            return Some(x.cmp(&y));
        }
    }
    Some(ra.cmp(&rb))
}

fn model_winner<'a>(a: &'a str, b: &'a str, letters: Letters) -> Option<&'a str> {
    Some(match model_cmp(a, b, letters)? {
        std::cmp::Ordering::Greater => a,
        std::cmp::Ordering::Less => b,
        std::cmp::Ordering::Equal => {
            if a <= b {
                a
            } else {
                b
            }
        }
    })
}

// ---------------------------------------------------------------------------
// Independent model of `matches` for the pattern shapes this check generates
// (C06 needs a ground truth for "neither name matches" and "the result matches"
// that is not the code under test).  Written from the statements of the given
// properties: a dewey pattern BASE op V [op V] matches a name exactly when the
// text before the name's last '-' equals BASE byte for byte and the text after
// it satisfies every bound (a name without '-' never matches); a brace pattern
// matches when one of its csh-style expansions does; a pattern with '*', '?',
// '[' or ']' is a shell glob over the whole name; anything else matches only
// the identical string.  The model declines (None) on anything outside those
// shapes or outside the dewey model's domain.
// ---------------------------------------------------------------------------

fn glob_model(p: &[char], n: &[char]) -> Option<bool> {
    if p.is_empty() {
        return Some(n.is_empty());
    }
    match p[0] {
        '*' => {
            for k in 0..=n.len() {
                if glob_model(&p[1..], &n[k..])? {
                    return Some(true);
                }
            }
            Some(false)
        }
        '?' => {
            if n.is_empty() {
                Some(false)
            } else {
                glob_model(&p[1..], &n[1..])
            }
        }
        '[' => {
            let close = p.iter().skip(2).position(|&c| c == ']').map(|i| i + 2)?;
            let mut set = &p[1..close];
            let negate = matches!(set.first(), Some('!'));
            if negate {
                set = &set[1..];
            }
            if n.is_empty() {
                return Some(false);
            }
            let c = n[0];
            let mut hit = false;
            let mut i = 0;
            while i < set.len() {
                if i + 2 < set.len() && set[i + 1] == '-' {
                    if set[i] <= c && c <= set[i + 2] {
                        hit = true;
                    }
                    i += 3;
                } else {
                    if set[i] == c {
                        hit = true;
                    }
                    i += 1;
                }
            }
            if hit != negate {
                glob_model(&p[close + 1..], &n[1..])
            } else {
                Some(false)
            }
        }
        ']' => None,
        c => {
            if n.first() == Some(&c) {
                glob_model(&p[1..], &n[1..])
            } else {
                Some(false)
            }
        }
    }
}

fn version_cmp_model(a: &str, b: &str) -> Option<std::cmp::Ordering> {
    let (ca, ra) = dewey_model(a, Letters::Rank)?;
    let (cb, rb) = dewey_model(b, Letters::Rank)?;
    // a version pair the letter-weight finding affects is left to the pair oracle
    let (xa, _) = dewey_model(a, Letters::AsciiCode)?;
    let (xb, _) = dewey_model(b, Letters::AsciiCode)?;
    let cmp = |p: &Vec<i128>, q: &Vec<i128>| {
        let n = p.len().max(q.len());
        for i in 0..n {
            let x = p.get(i).copied().unwrap_or(0);
            let y = q.get(i).copied().unwrap_or(0);
            if x != y {
                return x.cmp(&y);
            }
        }
        std::cmp::Ordering::Equal
    };
    let rank = cmp(&ca, &cb).then(ra.cmp(&rb));
    let ascii = cmp(&xa, &xb).then(ra.cmp(&rb));
    if rank != ascii {
        return None;
    }
    Some(rank)
}

fn model_matches(pattern: &str, name: &str) -> Option<bool> {
    if pattern.contains(['{', '}']) {
        // csh-style expansion: the first '{' and its matching '}' (found by depth)
        // delimit a group; its alternatives are separated by the commas at the
        // group's own depth; empty alternatives allowed; nested groups expanded
        // in the substituted strings
        let open = pattern.find('{')?;
        if pattern[..open].contains('}') {
            return None;
        }
        let mut depth = 0usize;
        let mut close = None;
        let mut cuts: Vec<usize> = Vec::new();
        for (i, c) in pattern.char_indices().skip_while(|(i, _)| *i < open) {
            match c {
                '{' => depth += 1,
                '}' => {
                    depth = depth.checked_sub(1)?;
                    if depth == 0 {
                        close = Some(i);
                        break;
                    }
                }
                ',' if depth == 1 => cuts.push(i),
                _ => {}
            }
        }
        let close = close?;
        cuts.push(close);
        let mut undecided = false;
        let mut from = open + 1;
        for cut in cuts {
            let exp = format!("{}{}{}", &pattern[..open], &pattern[from..cut], &pattern[close + 1..]);
            from = cut + 1;
            match model_matches(&exp, name) {
                Some(true) => return Some(true),
                Some(false) => {}
                None => undecided = true,
            }
        }
        return if undecided { None } else { Some(false) };
    }
    if pattern.contains(['<', '>']) {
        // BASE op V  |  BASE op1 V1 op2 V2 with op1 in {>, >=} and op2 in {<, <=}
        let b = pattern.as_bytes();
        let mut ops: Vec<(usize, usize, u8, bool)> = Vec::new(); // (start, end, '<'|'>', or_equal)
        let mut i = 0;
        while i < b.len() {
            if b[i] == b'<' || b[i] == b'>' {
                let eq = b.get(i + 1) == Some(&b'=');
                ops.push((i, i + 1 + eq as usize, b[i], eq));
                i += 1 + eq as usize;
            } else {
                i += 1;
            }
        }
        let bounds: Vec<(u8, bool, &str)> = match ops.len() {
            1 => vec![(ops[0].2, ops[0].3, &pattern[ops[0].1..])],
            2 if ops[0].2 == b'>' && ops[1].2 == b'<' => vec![
                (ops[0].2, ops[0].3, &pattern[ops[0].1..ops[1].0]),
                (ops[1].2, ops[1].3, &pattern[ops[1].1..]),
            ],
            _ => return None,
        };
        let base = &pattern[..ops[0].0];
        if base.contains(['*', '?', '[', ']']) {
            return None;
        }
        let dash = match name.rfind('-') {
            Some(d) => d,
            None => return Some(false),
        };
        if &name[..dash] != base {
            return Some(false);
        }
        let v = &name[dash + 1..];
        for (op, eq, bound) in bounds {
            let ord = version_cmp_model(v, bound)?;
            let ok = match (op, eq) {
                (b'>', false) => ord == std::cmp::Ordering::Greater,
                (b'>', true) => ord != std::cmp::Ordering::Less,
                (b'<', false) => ord == std::cmp::Ordering::Less,
                _ => ord != std::cmp::Ordering::Greater,
            };
            if !ok {
                return Some(false);
            }
        }
        return Some(true);
    }
    if pattern.contains(['*', '?', '[', ']']) {
        let p: Vec<char> = pattern.chars().collect();
        let n: Vec<char> = name.chars().collect();
        return glob_model(&p, &n);
    }
    Some(pattern == name)
}

/// Is version(a) strictly greater than version(b), in the order the library
/// itself exposes through a single-bound pattern?
fn strictly_greater(a: &str, b: &str) -> Result<bool, String> {
    let va = version_of(a);
    let vb = version_of(b);
    if va.contains(['{', '}', '<', '>']) || vb.contains(['{', '}', '<', '>']) {
        return Err("version with pattern metacharacters".into());
    }
    let p = Pattern::new(&format!("x>{}", vb)).map_err(|e| format!("{}", e))?;
    Ok(p.matches(&format!("x-{}", va)))
}

/// Reference winner of a multiset: among matching candidates, one with no
/// other strictly greater; ties to the byte-wise smallest name.
fn reference(pat: &Pattern, names: &[&str]) -> Result<Option<String>, String> {
    if names.len() > 400 {
        // the quadratic reference fold is skipped for the rare very long candidate
        // lists (scale runs): those are judged by the per-step invariants and the
        // pair models alone
        return Err("too many candidates for the quadratic reference".into());
    }
    let matching: Vec<&str> = names.iter().cloned().filter(|n| pat.matches(n)).collect();
    if matching.is_empty() {
        return Ok(None);
    }
    let mut maximal: Vec<&str> = Vec::new();
    for &c in &matching {
        let mut beaten = false;
        for &d in &matching {
            if strictly_greater(d, c)? {
                beaten = true;
                break;
            }
        }
        if !beaten {
            maximal.push(c);
        }
    }
    if maximal.is_empty() {
        return Err("the exposed order has a cycle: every matching candidate is beaten by another".into());
    }
    maximal.sort();
    Ok(Some(maximal[0].to_string()))
}

fn flip_first_letter(s: &str) -> String {
    let mut c: Vec<char> = s.chars().collect();
    if let Some(i) = c.iter().position(|ch| ch.is_ascii_alphabetic()) {
        c[i] = if c[i].is_ascii_lowercase() { c[i].to_ascii_uppercase() } else { c[i].to_ascii_lowercase() };
    }
    c.into_iter().collect()
}

/// One pairwise reduction step with its invariants.
fn merge_step(
    pat: &Pattern,
    a: &str,
    b: &str,
    ctx: &mut Ctx,
    what: &str,
    deferred: &mut Option<Violation>,
    env: &Env,
) -> Result<Option<String>, Violation> {
    // the other live pattern is asked first (its answers are judged by the same model)
    let twin_verdict: Option<Violation> = (|| {
        if let Some(tp) = env.twin {
            // (also about the candidates with the case of their first letter flipped: a
            // second pattern that differs from the first only in case has names of its own)
            let (fa, fb) = (flip_first_letter(a), flip_first_letter(b));
            for n in [a, b, fa.as_str(), fb.as_str()] {
                let m = on_thread!(env.helper, env.mask, env.next(), tp.matches(n));
                if let Some(want) = model_matches(tp.pattern(), n) {
                    if m != want {
                        return Some(Violation::new(
                            "matches-differs-from-model",
                            format!(
                                "{}: a second live pattern {:?} {} {:?} but by its definition it {}",
                                what,
                                tp.pattern(),
                                if m { "matches" } else { "does not match" },
                                n,
                                if want { "does" } else { "does not" }
                            ),
                        ));
                    }
                }
            }
        }
        None
    })();
    if let Some(v) = twin_verdict {
        return Err(v);
    }
    // (a brace pattern may honestly cost its expansion count)
    let weight = if pat.pattern().contains('{') {
        crate::c17::expansion_count(pat.pattern()).unwrap_or(1).min(100_000) as usize * (pat.pattern().len() + 64)
    } else {
        0
    };
    // when one name is a prefix of the other the two arguments are handed over as two
    // slices of ONE buffer (same start address, different lengths), as a caller that
    // cuts names out of a line does
    let shared: Option<(&str, bool)> = if a != b && b.starts_with(a) {
        Some((b, true))
    } else if a != b && a.starts_with(b) {
        Some((a, false))
    } else {
        None
    };
    let (a, b) = match shared {
        Some((long, a_is_short)) => {
            ctx.probe("arguments-share-a-buffer");
            if a_is_short {
                (&long[..a.len()], long)
            } else {
                (long, &long[..b.len()])
            }
        }
        None => (a, b),
    };
    let r = on_thread!(env.helper, env.mask, env.next(), metered!(ctx, a.len() + b.len() + 64 + 2 * weight, pat.best_match(a, b)));
    let ma = on_thread!(env.helper, env.mask, env.next(), pat.matches(a));
    let mb = on_thread!(env.helper, env.mask, env.next(), pat.matches(b));
    for (n, m) in [(a, ma), (b, mb)] {
        if let Some(want) = model_matches(pat.pattern(), n) {
            ctx.probe(if want { "match-model-agrees-match" } else { "match-model-agrees-no-match" });
            ensure!(
                m == want,
                "matches-differs-from-model",
                "{}: pattern {:?} {} {:?} but by the pattern's definition (dewey: same base and every bound satisfied; braces: union of expansions; glob over the whole name; plain: identical string) it {}",
                what,
                pat.pattern(),
                if m { "matches" } else { "does not match" },
                n,
                if want { "does" } else { "does not" }
            );
        }
    }
    match r {
        None => ensure!(
            !ma && !mb,
            "none-although-a-candidate-matches",
            "{}: best_match({:?}, {:?}) is None but matches() says {} / {}",
            what,
            a,
            b,
            ma,
            mb
        ),
        Some(x) => {
            ensure!(
                ma || mb,
                "some-although-none-matches",
                "{}: best_match({:?}, {:?}) = {:?} but neither matches",
                what,
                a,
                b,
                x
            );
            ensure!(
                x == a || x == b,
                "result-not-an-argument",
                "{}: best_match({:?}, {:?}) = {:?}",
                what,
                a,
                b,
                x
            );
            ensure!(
                on_thread!(env.helper, env.mask, env.next(), pat.matches(x)),
                "result-does-not-match",
                "{}: best_match({:?}, {:?}) = {:?} which does not match the pattern",
                what,
                a,
                b,
                x
            );
        }
    }
    let r2 = on_thread!(env.helper, env.mask, env.next(), pat.best_match(b, a));
    ensure!(
        r == r2,
        "argument-order-dependent",
        "{}: best_match({:?}, {:?}) = {:?} but best_match({:?}, {:?}) = {:?}",
        what,
        a,
        b,
        r,
        b,
        a,
        r2
    );
    if ma && mb {
        // the winner of a pair in which both match is fixed by the dewey rule itself
        if let Some(want) = model_winner(a, b, Letters::Rank) {
            ctx.probe("dewey-model-pair");
            let has = |n: &str, f: &dyn Fn(u8) -> bool| version_of(n).bytes().any(|c| f(c));
            if has(a, &|c| c.is_ascii_alphabetic()) || has(b, &|c| c.is_ascii_alphabetic()) {
                ctx.probe("dewey-model-pair-with-letters-or-modifiers");
            }
            if r != Some(want) {
                // tell the recorded letter-weight deviation apart from everything else
                let known_class = model_winner(a, b, Letters::AsciiCode).is_some_and(|w| r == Some(w));
                let v = Violation::new(
                    "winner-differs-from-dewey-rule",
                    format!(
                        "{}{}: best_match({:?}, {:?}) = {:?}; under the dewey rule (digit runs by value; '.', '_', pl = 0; alpha/beta/rc|pre = -3/-2/-1; other letters = 0 then alphabet rank; case-insensitive; zero padding; nb revision last; ties to the smaller name) the winner is {:?}",
                        if known_class { "[letter-weight-ascii-code] " } else { "" },
                        what,
                        a,
                        b,
                        r,
                        want
                    ),
                );
                if known_class {
                    // recorded finding: keep checking the rest of the run, so that it
                    // cannot hide a different violation; reported at the end of the run
                    ctx.probe("letter-weight-deviation-seen");
                    if deferred.is_none() {
                        *deferred = Some(v);
                    }
                } else {
                    return Err(v);
                }
            }
        }
        if !a.contains('-') || !b.contains('-') {
            ctx.probe("both-match-one-without-dash");
        }
        if a == b {
            ctx.probe("identical-names");
        } else if let (Ok(false), Ok(false)) = (strictly_greater(a, b), strictly_greater(b, a)) {
            if version_of(a) != version_of(b) {
                ctx.probe("padded-or-equivalent-tie");
            }
            let base = |n: &str| n.rfind('-').map(|i| n[..i].to_string());
            if base(a) != base(b) {
                ctx.probe("tie-different-base");
            }
        }
    }
    Ok(r.map(|s| s.to_string()))
}

impl Property for C06 {
    type Sc = Sc;

    fn id(&self) -> &'static str {
        "C06"
    }
    fn level(&self) -> &'static str {
        "exploration"
    }
    fn runs(&self, tier: Tier) -> u64 {
        match tier {
            Tier::Quick => 50_000,
            Tier::Thorough => 12_000_000,
        }
    }

    fn generate(&self, rng: &mut Rng, _run: u64, _tier: Tier) -> Sc {
        let pattern = gen_pattern(rng);
        // scale now and then: hundreds or thousands of candidates through one reduction
        let ncand = if rng.chance(1, 400) { *rng.pick(&[257usize, 300, 1100, 4100, 4200, 8300]) } else { rng.urange(2, 8) };
        let mut fresh_thread = rng.chance(1, 50);
        let mut ordered = 0u8;
        let mut cands: Vec<String> = (0..ncand).map(|_| gen_name(rng)).collect();
        let mut pattern = pattern;
        if ncand >= 257 {
            // scale runs: thousands of distinct versions, all matching
            pattern = rng.pick_str(&["foo-[0-9]*", "foo>=0", "foo*"]).to_string();
            // (the modulus decides whether the winner's name is byte-wise small, "foo-1000x",
            // or large, "foo-997x": a wrong tie-break shows only with one of them)
            let modulus = *rng.pick(&[10_007usize, 9_973]);
            cands = (0..ncand).map(|i| format!("foo-{}.{}", (i * 7919) % modulus, i % 13)).collect();
            fresh_thread = rng.chance(3, 4);
            // sometimes the first replica sees the list in a telling order: the winner
            // first (it stays the running winner throughout) or last, or ascending
            ordered = rng.below(6) as u8;
        }
        if ncand < 257 && rng.chance(1, 30) {
            // a tie family: the versions tie under the dewey rule and the names differ first
            // in one character, drawn so that byte order, UTF-16 code-unit order, scalar
            // order after case folding and collation order all disagree somewhere
            // (private-use and compatibility characters above U+E000 against characters
            // beyond the BMP; wave 17, C06-53)
            const TIE_CHARS: [&str; 14] =
                ["\u{e000}", "\u{fb01}", "\u{ffff}", "\u{10000}", "\u{1f600}", "\u{10ffff}", "\u{e9}", "\u{7f}", "\u{80}", "Z", "a", "+", "\u{d7ff}", "\u{ff5e}"];
            const TIE_VERSIONS: [&str; 5] = ["1.0", "1.0.0", "1.00", "1.0nb0", "1.0_0"];
            pattern = rng.pick_str(&["fo*-[0-9]*", "*-[0-9]*", "*", "foo*", "fo?*"]).to_string();
            let same_version = rng.chance(2, 3);
            let v0 = *rng.pick(&TIE_VERSIONS);
            cands = (0..ncand)
                .map(|_| format!("foo{}-{}", rng.pick_str(&TIE_CHARS), if same_version { v0 } else { *rng.pick(&TIE_VERSIONS) }))
                .collect();
        }
        if rng.chance(1, 4) {
            // force equal names
            let c = cands[0].clone();
            cands.push(c);
        }
        let nrep = rng.urange(2, 4);
        let partitioned = rng.chance(1, 2) && ordered == 0;
        let mut replicas: Vec<Vec<Delivery>> = vec![Vec::new(); nrep];
        if partitioned {
            for c in &cands {
                let r = rng.usize_below(nrep);
                replicas[r].push(Delivery {
                    name: c.clone(),
                    new_first: rng.chance(1, 2),
                });
            }
        } else {
            for r in replicas.iter_mut() {
                let mut order: Vec<usize> = (0..cands.len()).collect();
                rng.shuffle(&mut order);
                for i in order {
                    r.push(Delivery {
                        name: cands[i].clone(),
                        new_first: rng.chance(1, 2),
                    });
                }
            }
            if (1..=4).contains(&ordered) {
                // by the harness's own dewey model; ties cannot occur (distinct versions)
                let r = &mut replicas[0];
                let key = |n: &str| -> (u64, u64) {
                    let v = version_of(n);
                    let (a, b) = v.split_once('.').unwrap_or((v, "0"));
                    (a.parse().unwrap_or(0), b.parse().unwrap_or(0))
                };
                r.sort_by_key(|d| key(&d.name));
                match ordered {
                    1 => r.reverse(), // descending: the winner comes first
                    2 => {}           // ascending: every delivery beats the running winner
                    3 => {
                        // winner first, the rest ascending
                        let w = r.pop().unwrap();
                        r.insert(0, w);
                    }
                    _ => {
                        // descending, but the winner comes last
                        r.reverse();
                        let w = r.remove(0);
                        r.push(w);
                    }
                }
                let nf = rng.chance(1, 4);
                for d in r.iter_mut() {
                    d.new_first = nf;
                }
            }
        }
        // duplicate and late re-deliveries
        for r in replicas.iter_mut() {
            if r.is_empty() {
                continue;
            }
            let k = if rng.chance(1, 2) { rng.urange(1, 3) } else { 0 };
            for _ in 0..k {
                let src = rng.usize_below(r.len());
                let d = Delivery {
                    name: r[src].name.clone(),
                    new_first: rng.chance(1, 2),
                };
                let at = if rng.chance(1, 2) { r.len() } else { rng.urange(0, r.len()) };
                r.insert(at, d);
            }
        }
        // merge tree
        let mut alive: Vec<usize> = (0..nrep).collect();
        let mut merges = Vec::new();
        while alive.len() > 1 {
            let i = rng.usize_below(alive.len());
            let from = alive.remove(i);
            let into = *rng.pick(&alive);
            merges.push(Merge {
                from,
                into,
                from_first: rng.chance(1, 2),
            });
        }
        let twin = if rng.chance(1, 3) {
            // (a scale run gets a cheap neighbour: thousands of merge steps times a
            // neighbour group of hundreds of alternatives is minutes of honest work)
            let tp = match if ncand >= 257 { 1 } else { rng.below(4) } {
                // a pattern that is rejected (an opening brace never closed, a surplus closing
                // one, a bad bound): a failed compilation is a neighbour call like any other
                3 => rng.pick_str(&REJECTED).to_string(),
                // the same pattern with the case of its first letter flipped: another pattern
                0 => {
                    let mut c: Vec<char> = pattern.chars().collect();
                    if let Some(i) = c.iter().position(|ch| ch.is_ascii_alphabetic()) {
                        c[i] = if c[i].is_ascii_lowercase() { c[i].to_ascii_uppercase() } else { c[i].to_ascii_lowercase() };
                    }
                    c.into_iter().collect()
                }
                // the same base, another bound
                1 => format!("foo<{}", rng.pick(&VERSIONS)),
                _ => gen_pattern(rng),
            };
            Some(TwinPattern {
                pattern: tp,
                clone_mode: rng.below(4) as u8,
                first: rng.chance(1, 3),
            })
        } else {
            None
        };
        // a run with a rejected neighbour pattern gets a thread of its own more often: what
        // a failed compilation leaves behind on a long-lived worker would make later
        // patterns uncompilable there (nothing to reduce), and hide itself
        if twin.as_ref().map_or(false, |t| REJECTED.contains(&t.pattern.as_str())) && rng.chance(3, 4) {
            fresh_thread = true;
        }
        // (not in scale runs: a rendezvous per call would dominate them)
        let migrate = if rng.chance(1, 8) && ncand < 257 { rng.next_u64() | (1 << 63) } else { 0 };
        Sc {
            pattern,
            replicas,
            merges,
            twin,
            fresh_thread,
            migrate,
        }
    }

    fn execute(&self, sc: &Sc, ctx: &mut Ctx) -> Outcome {
        if sc.fresh_thread {
            ctx.fault("fresh_thread");
            // ... and while that thread exits, from the destructor of one of its thread-locals,
            // one more question is asked: a tie between different names, in both orders
            let (out, at_exit) = crate::framework::in_fresh_thread_with_exit(
                || execute_run(sc, ctx),
                || {
                    let p = Pattern::new("*-[0-9]*").ok()?;
                    let a = p.best_match("foo-1.0", "bar-1.0.0").map(|s| s.to_string());
                    let b = p.best_match("bar-1.0.0", "foo-1.0").map(|s| s.to_string());
                    let c = p.best_match("foo-1.0", "foo-1.0nb0").map(|s| s.to_string());
                    let d = p.best_match("foo-1.0nb0", "foo-1.0").map(|s| s.to_string());
                    Some((a, b, c, d))
                },
            );
            out?;
            if let Some(Some((a, b, c, d))) = at_exit {
                ctx.probe("asked-while-the-thread-exits");
                ensure!(
                    a.as_deref() == Some("bar-1.0.0") && b.as_deref() == Some("bar-1.0.0") && c.as_deref() == Some("foo-1.0") && d.as_deref() == Some("foo-1.0"),
                    "argument-order-dependent",
                    "asked from a thread-local destructor while the thread exits: best_match(foo-1.0, bar-1.0.0) = {:?}, swapped {:?}; best_match(foo-1.0, foo-1.0nb0) = {:?}, swapped {:?}; ties go to the byte-wise smaller name in both orders",
                    a,
                    b,
                    c,
                    d
                );
            }
            return Ok(());
        }
        execute_run(sc, ctx)
    }


    fn shrink(&self, sc: &Sc, emit: &mut dyn FnMut(Sc) -> bool) {
        macro_rules! push {
            ($e:expr) => {
                if emit($e) {
                    return;
                }
            };
        }
        for (ri, r) in sc.replicas.iter().enumerate() {
            for d in shrink_vec(r) {
                let mut s = sc.clone();
                s.replicas[ri] = d;
                push!(s);
            }
        }
        for m in shrink_vec(&sc.merges) {
            push!(Sc { merges: m, ..sc.clone() });
        }
        if sc.twin.is_some() {
            push!(Sc { twin: None, ..sc.clone() });
        }
        if sc.replicas.len() > 1 {
            // collapse into one replica
            let all: Vec<Delivery> = sc.replicas.iter().flatten().cloned().collect();
            push!(Sc {
                pattern: sc.pattern.clone(),
                replicas: vec![all],
                merges: vec![],
                twin: sc.twin.clone(),
                fresh_thread: sc.fresh_thread,
                migrate: sc.migrate,
            });
        }
        for (ri, r) in sc.replicas.iter().enumerate() {
            for (di, d) in r.iter().enumerate() {
                if d.new_first {
                    let mut s = sc.clone();
                    s.replicas[ri][di].new_first = false;
                    push!(s);
                }
            }
        }
    }

    fn classify(&self, _sc: &Sc, v: &Violation) -> String {
        if v.detail.starts_with("[letter-weight-ascii-code] ") {
            "letter-weight-ascii-code".to_string()
        } else {
            String::new()
        }
    }

    fn work_factor(&self) -> Option<u64> {
        Some(2048)
    }
    fn rule(&self) -> String {
        "Each run draws a pattern (dewey one/two-bound, glob, alternate, plain), a multiset of 2..9 candidate names \
         around it (matching and non-matching bases, versions that tie after zero padding, nb revisions, modifiers, \
         equal names) and a schedule: 2..4 replicas, each with a delivery order (either all candidates permuted, or a \
         partition), duplicate and late re-deliveries, the side on which each new candidate is passed, and a merge \
         tree among replicas with argument sides. Non-trivial = at least two deliveries on one replica; distinct = \
         distinct schedule signatures (hash of the sequence of (replica, candidate) deliveries, duplicates, \
         argument-side flips and merges)."
            .to_string()
    }
    fn components_real(&self) -> Vec<&'static str> {
        vec!["pkgsrc::Pattern::{new, matches, best_match}", "pkgsrc::PkgName, dewey comparison"]
    }
    fn components_stub(&self) -> Vec<&'static str> {
        vec!["the reducers (replicas and merge tree are harness actors scheduled by the scenario)"]
    }
    fn assumptions(&self) -> Vec<&'static str> {
        vec![
            "the reference maximum uses the version order the library exposes through single-bound patterns (its agreement with pkg_install is C01, not claimed)",
            "candidate versions contain no '{', '}', '<' or '>'",
            "the winner of each pair in which both candidates match is additionally compared with an independent model of the dewey rule written from the property text (digit runs below 2^63; '.', '_', pl = 0; alpha/beta/rc|pre; letters by alphabet rank; case-insensitive; ignored characters; nb<N> revision); the model declines on digit runs at or beyond i64::MAX and on an 'nb' not in lower case",
        ]
    }
    fn expected_probes(&self) -> Vec<&'static str> {
        vec![
            "tie-different-base",
            "identical-names",
            "padded-or-equivalent-tie",
            "none-match",
            "exactly-one-matches",
            "duplicate-delivered-after-beaten",
            "both-match-one-without-dash",
            "dewey-model-pair",
            "match-model-agrees-match",
            "match-model-agrees-no-match",
            "dewey-model-pair-with-letters-or-modifiers",
        ]
    }
}

/// One run (on the worker's thread or on a thread of its own, see `Sc::fresh_thread`).
fn execute_run(sc: &Sc, ctx: &mut Ctx) -> Outcome {
    // a second caller thread, when the scenario asks for one and a user could move a
    // Pattern between threads too
    let helper: Option<Helper> = if sc.migrate != 0 && is_send_sync!(Pattern) {
        ctx.fault("caller_thread_switch");
        Some(Helper::new())
    } else {
        None
    };
    let mask = sc.migrate;
    let mut ncall = 0u64;
    let mut compile = |p: &str| -> Option<Pattern> {
        ncall += 1;
        on_thread!(helper, mask, ncall - 1, Pattern::new(p).ok())
    };
    let early_twin: Option<Pattern> = match &sc.twin {
        Some(t) if t.first => compile(&t.pattern),
        _ => None,
    };
    let pat = match compile(&sc.pattern) {
        Some(p) => p,
        None => return Ok(()), // not a valid pattern: nothing to reduce
    };
    let mut kept: Vec<Pattern> = Vec::new();
    let pat = match sc.twin.as_ref().map(|t| t.clone_mode) {
        Some(1) => {
            let c = on_thread!(helper, mask, 5u64, pat.clone());
            drop(pat);
            c
        }
        Some(2) => {
            let c = pat.clone();
            on_thread!(helper, mask, 6u64, drop(c));
            pat
        }
        Some(3) => {
            kept.push(on_thread!(helper, mask, 7u64, pat.clone()));
            pat
        }
        _ => pat,
    };
    // compiled after the clone / drop above, alive until the end of the run
    let twin_pat: Option<Pattern> = match &sc.twin {
        Some(t) if t.first => early_twin,
        Some(t) => compile(&t.pattern),
        None => None,
    };
    if twin_pat.is_some() {
        ctx.fault("interleaved_objects");
    }
    let env = Env {
        twin: twin_pat.as_ref(),
        helper: &helper,
        mask,
        calls: std::cell::Cell::new(8),
    };
    let mut state: Vec<Option<String>> = vec![None; sc.replicas.len()];
    let mut seen_all: Vec<&str> = Vec::new();
    let mut deferred: Option<Violation> = None;
    for (ri, dels) in sc.replicas.iter().enumerate() {
        let mut seen: Vec<&str> = Vec::new();
        for (di, d) in dels.iter().enumerate() {
            ctx.step("deliver", ri as u64, crate::rng::hash_str(&d.name));
            if seen.contains(&d.name.as_str()) {
                ctx.fault("duplicate_delivery");
                if state[ri].as_deref() != Some(d.name.as_str()) && pat.matches(&d.name) {
                    ctx.probe("duplicate-delivered-after-beaten");
                }
            }
            if di > 0 {
                ctx.nontrivial = true;
            }
            seen.push(&d.name);
            let what = format!("replica {} delivery {}", ri, di);
            state[ri] = match &state[ri] {
                None => merge_step(&pat, &d.name, &d.name, ctx, &what, &mut deferred, &env)?,
                Some(cur) => {
                    let cur = cur.clone();
                    if d.new_first {
                        ctx.fault("reorder");
                        merge_step(&pat, &d.name, &cur, ctx, &what, &mut deferred, &env)?
                    } else {
                        merge_step(&pat, &cur, &d.name, ctx, &what, &mut deferred, &env)?
                    }
                }
            };
        }
        // replica-local convergence: equals the reference over what it saw
        match reference(&pat, &seen) {
            Ok(want) => ensure!(
                state[ri] == want,
                "replica-winner-differs-from-maximum",
                "pattern {:?}: replica {} reduced {:?} to {:?}, the maximum under the version order (ties to the smaller name) is {:?}",
                sc.pattern,
                ri,
                seen,
                state[ri],
                want
            ),
            Err(e) => {
                if e.contains("cycle") {
                    fail!("order-has-cycle", "pattern {:?}, candidates {:?}: {}", sc.pattern, seen, e);
                }
            }
        }
        seen_all.extend(seen);
    }
    // merge tree
    let mut absorbed = vec![false; state.len()];
    for (mi, m) in sc.merges.iter().enumerate() {
        if m.from >= state.len() || m.into >= state.len() || m.from == m.into || absorbed[m.from] || absorbed[m.into] {
            continue;
        }
        ctx.step("merge", m.from as u64, m.into as u64);
        ctx.fault("regroup");
        let what = format!("merge {} ({} into {})", mi, m.from, m.into);
        let a = state[m.from].clone();
        let b = state[m.into].clone();
        state[m.into] = match (a, b) {
            (None, x) | (x, None) => x,
            (Some(p), Some(q)) => {
                if m.from_first {
                    merge_step(&pat, &p, &q, ctx, &what, &mut deferred, &env)?
                } else {
                    merge_step(&pat, &q, &p, ctx, &what, &mut deferred, &env)?
                }
            }
        };
        absorbed[m.from] = true;
    }
    let remaining: Vec<usize> = (0..state.len()).filter(|i| !absorbed[*i]).collect();
    if remaining.len() == 1 {
        let fin = &state[remaining[0]];
        match reference(&pat, &seen_all) {
            Ok(want) => {
                if want.is_none() {
                    ctx.probe("none-match");
                }
                if seen_all.iter().filter(|n| pat.matches(n)).count() == 1 {
                    ctx.probe("exactly-one-matches");
                }
                ensure!(
                    *fin == want,
                    "merged-winner-differs-from-maximum",
                    "pattern {:?}: merging the replicas gave {:?}; the maximum of all candidates {:?} is {:?}",
                    sc.pattern,
                    fin,
                    seen_all,
                    want
                );
            }
            Err(e) => {
                if e.contains("cycle") {
                    fail!("order-has-cycle", "pattern {:?}: {}", sc.pattern, e);
                }
            }
        }
    }
    drop(kept);
    match deferred {
        Some(v) => Err(v),
        None => Ok(()),
    }
}
