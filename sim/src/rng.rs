//! The one source of randomness in the simulator.
//!
//! SplitMix64 is used for seed derivation, xoshiro256** for the stream of
//! choices.  Written here (not taken from `rand`) so that the stream can
//! never change under a dependency bump: a seed is a replayable execution.

#[inline]
pub fn splitmix64(x: u64) -> u64 {
    let mut z = x.wrapping_add(0x9E37_79B9_7F4A_7C15);
    z = (z ^ (z >> 30)).wrapping_mul(0xBF58_476D_1CE4_E5B9);
    z = (z ^ (z >> 27)).wrapping_mul(0x94D0_49BB_1331_11EB);
    z ^ (z >> 31)
}

/// Order-sensitive mixing of a value into a running digest.
#[inline]
pub fn mix(h: u64, v: u64) -> u64 {
    splitmix64(h.rotate_left(5) ^ v)
}

pub fn hash_bytes(b: &[u8]) -> u64 {
    let mut h = 0xcbf2_9ce4_8422_2325u64;
    for &c in b {
        h ^= c as u64;
        h = h.wrapping_mul(0x0000_0100_0000_01b3);
    }
    splitmix64(h ^ (b.len() as u64))
}

pub fn hash_str(s: &str) -> u64 {
    hash_bytes(s.as_bytes())
}

#[derive(Clone, Debug)]
pub struct Rng {
    s: [u64; 4],
}

impl Rng {
    pub fn new(seed: u64) -> Rng {
        let mut x = seed;
        let mut s = [0u64; 4];
        for i in 0..4 {
            x = splitmix64(x);
            s[i] = x;
        }
        if s == [0, 0, 0, 0] {
            s[0] = 1;
        }
        Rng { s }
    }

    #[inline]
    pub fn next_u64(&mut self) -> u64 {
        let result = self.s[1].wrapping_mul(5).rotate_left(7).wrapping_mul(9);
        let t = self.s[1] << 17;
        self.s[2] ^= self.s[0];
        self.s[3] ^= self.s[1];
        self.s[1] ^= self.s[2];
        self.s[0] ^= self.s[3];
        self.s[2] ^= t;
        self.s[3] = self.s[3].rotate_left(45);
        result
    }

    /// Uniform in 0..n (n > 0).
    #[inline]
    pub fn below(&mut self, n: u64) -> u64 {
        debug_assert!(n > 0);
        // multiply-shift; bias is irrelevant here
        ((self.next_u64() as u128 * n as u128) >> 64) as u64
    }

    #[inline]
    pub fn usize_below(&mut self, n: usize) -> usize {
        self.below(n as u64) as usize
    }

    /// Uniform in lo..=hi.
    #[inline]
    pub fn range(&mut self, lo: u64, hi: u64) -> u64 {
        debug_assert!(lo <= hi);
        lo + self.below(hi - lo + 1)
    }

    #[inline]
    pub fn urange(&mut self, lo: usize, hi: usize) -> usize {
        self.range(lo as u64, hi as u64) as usize
    }

    /// True with probability num/den.
    #[inline]
    pub fn chance(&mut self, num: u64, den: u64) -> bool {
        self.below(den) < num
    }

    pub fn pick<'a, T>(&mut self, xs: &'a [T]) -> &'a T {
        &xs[self.usize_below(xs.len())]
    }

    pub fn pick_str(&mut self, xs: &[&'static str]) -> &'static str {
        xs[self.usize_below(xs.len())]
    }

    pub fn shuffle<T>(&mut self, xs: &mut [T]) {
        for i in (1..xs.len()).rev() {
            let j = self.usize_below(i + 1);
            xs.swap(i, j);
        }
    }

    /// A random subset mask of `n` items where each is kept with prob num/den.
    pub fn subset(&mut self, n: usize, num: u64, den: u64) -> Vec<bool> {
        (0..n).map(|_| self.chance(num, den)).collect()
    }

    /// Heavy-tailed length: mostly small, sometimes up to `max`.
    pub fn len_tail(&mut self, small: usize, max: usize) -> usize {
        if self.chance(15, 16) || max <= small {
            self.urange(0, small)
        } else {
            self.urange(small, max)
        }
    }

    pub fn fork(&mut self) -> Rng {
        Rng::new(self.next_u64())
    }
}
