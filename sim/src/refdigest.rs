//! Independent digest reference: the RustCrypto hashers called one-shot on the
//! whole byte string, pinned by published known-answer vectors so that
//! "equals the standard algorithm" does not silently mean "equals itself".
//! Also an independent implementation of the patch line filter, written from
//! the property text.

use digest::Digest as _;
use pkgsrc::digest::Digest;

pub const ALGS: [Digest; 6] = [
    Digest::BLAKE2s,
    Digest::MD5,
    Digest::RMD160,
    Digest::SHA1,
    Digest::SHA256,
    Digest::SHA512,
];

pub const ALG_NAMES: [&str; 6] = ["BLAKE2s", "MD5", "RMD160", "SHA1", "SHA256", "SHA512"];
pub const HEX_LEN: [usize; 6] = [64, 32, 40, 40, 64, 128];

fn hex(b: &[u8]) -> String {
    const H: &[u8; 16] = b"0123456789abcdef";
    let mut s = String::with_capacity(b.len() * 2);
    for &c in b {
        s.push(H[(c >> 4) as usize] as char);
        s.push(H[(c & 15) as usize] as char);
    }
    s
}

/// One-shot reference digest, by algorithm index (order of `ALGS`).
pub fn ref_digest(alg: usize, data: &[u8]) -> String {
    match alg {
        0 => hex(&blake2::Blake2s256::digest(data)),
        1 => hex(&md5::Md5::digest(data)),
        2 => hex(&ripemd::Ripemd160::digest(data)),
        3 => hex(&sha1::Sha1::digest(data)),
        4 => hex(&sha2::Sha256::digest(data)),
        5 => hex(&sha2::Sha512::digest(data)),
        _ => unreachable!(),
    }
}

/// The patch filter as the property states it: every newline-terminated line
/// containing "$NetBSD" is removed; a final unterminated line counts as
/// terminated (so it gains a newline, or is removed if it holds the marker).
pub fn patch_filter(data: &[u8]) -> Vec<u8> {
    let mut out = Vec::with_capacity(data.len() + 1);
    let mut i = 0;
    while i < data.len() {
        let mut j = i;
        while j < data.len() && data[j] != b'\n' {
            j += 1;
        }
        let line = &data[i..j];
        let mut has = false;
        if line.len() >= 7 {
            for k in 0..=line.len() - 7 {
                if &line[k..k + 7] == b"$NetBSD" {
                    has = true;
                    break;
                }
            }
        }
        if !has {
            out.extend_from_slice(line);
            out.push(b'\n');
        }
        i = j + 1; // skip the newline (or run past the end)
    }
    out
}

const KAT_INPUTS: [&[u8]; 3] = [
    b"",
    b"abc",
    b"abcdbcdecdefdefgefghfghighijhijkijkljklmklmnlmnomnopnopq",
];

// [input][alg]
const KAT: [[&str; 6]; 3] = [
    [
        "69217a3079908094e11121d042354a7c1f55b6482ca1a51e1b250dfd1ed0eef9",
        "d41d8cd98f00b204e9800998ecf8427e",
        "9c1185a5c5e9fc54612808977ee8f548b2258d31",
        "da39a3ee5e6b4b0d3255bfef95601890afd80709",
        "e3b0c44298fc1c149afbf4c8996fb92427ae41e4649b934ca495991b7852b855",
        "cf83e1357eefb8bdf1542850d66d8007d620e4050b5715dc83f4a921d36ce9ce47d0d13c5d85f2b0ff8318d2877eec2f63b931bd47417a81a538327af927da3e",
    ],
    [
        "508c5e8c327c14e2e1a72ba34eeb452f37458b209ed63a294d999b4c86675982",
        "900150983cd24fb0d6963f7d28e17f72",
        "8eb208f7e05d987a9b044a8e98c6b087f15a0bfc",
        "a9993e364706816aba3e25717850c26c9cd0d89d",
        "ba7816bf8f01cfea414140de5dae2223b00361a396177a9cb410ff61f20015ad",
        "ddaf35a193617abacc417349ae20413112e6fa4e89a97ea20a9eeee64b55d39a2192992a274fc1a836ba3c23a3feebbd454d4423643ce80e2a9ac94fa54ca49f",
    ],
    [
        "6f4df5116a6f332edab1d9e10ee87df6557beab6259d7663f3bcd5722c13f189",
        "8215ef0796a20bcaaae116d3876c664a",
        "12a053384a9c0c88e405a06c27dcf49ada62eb2b",
        "84983e441c3bd26ebaae4aa1f95129e5e54670f1",
        "248d6a61d20638b8e5c026930c3e6039a33ce45964ff2167f6ecedd419db06c1",
        "204a8fc6dda82f0a0ced7beb8e08a41657c16ef468b228a8279be331a703c33596fd15c13b1b07f9aa1d3bea57789ca031ad85c7a71dd70354ec631238ca3445",
    ],
];

const KAT_A1000: [&str; 6] = [
    "a4691c2bf852334ece63c024234338fc6c150bdf04fa3f6e0e4c5209b326438d",
    "cabe45dcc9ae5b66ba86600cca6b8ba8",
    "aa69deee9a8922e92f8105e007f76110f381e9cf",
    "291e9a6c66994949b57ba5e650361e98fc36b1ba",
    "41edece42d63e8d9bf515a9ba6932e1c20cbc9f5a5d134645adb5db1b9737ea3",
    "67ba5535a46e3f86dbfbed8cbbaf0125c76ed549ff8b0b9e03e0c88cf90fa634fa7b12b47d77b694de488ace8d9a65967dc96df599727d3292a8d9d447709c97",
];

/// Harness self-test: the reference must reproduce the published vectors.
pub fn self_test() -> Result<(), String> {
    for (i, inp) in KAT_INPUTS.iter().enumerate() {
        for a in 0..6 {
            let got = ref_digest(a, inp);
            if got != KAT[i][a] {
                return Err(format!(
                    "reference digest {} of KAT input {} is {}, expected {}",
                    ALG_NAMES[a], i, got, KAT[i][a]
                ));
            }
        }
    }
    let a1000 = vec![b'a'; 1000];
    for a in 0..6 {
        if ref_digest(a, &a1000) != KAT_A1000[a] {
            return Err(format!("reference digest {} of 'a'*1000 mismatch", ALG_NAMES[a]));
        }
    }
    // patch filter spot checks written from the property text
    let cases: [(&[u8], &[u8]); 8] = [
        (b"", b""),
        (b"abc", b"abc\n"),
        (b"abc\n", b"abc\n"),
        (b"a\n$NetBSD$\nb\n", b"a\nb\n"),
        (b"a\nx $NetBSD: foo $ y", b"a\n"),
        (b"\n\n", b"\n\n"),
        (b"$NetBS\nD\n", b"$NetBS\nD\n"),
        (b"$NetBSD", b""),
    ];
    for (i, o) in cases {
        if patch_filter(i) != o {
            return Err(format!("patch_filter self-test failed on {:?}", i));
        }
    }
    Ok(())
}
