//! C13 - digests equal the standard algorithms for every input and every read
//! pattern.  The simulator owns every `Read::read` call: how many bytes it
//! returns, EINTR, hard errors, early EOF.

use crate::framework::*;
use crate::refdigest::*;
use crate::rng::Rng;
use crate::seams::*;
use pkgsrc::digest::{Digest, DigestError};
use serde::{Deserialize, Serialize};
use std::io::BufReader;
use std::str::FromStr;

#[derive(Clone, Copy, Debug, Serialize, Deserialize, PartialEq, Eq)]
pub enum Mode {
    File,
    Patch,
}

#[derive(Clone, Debug, Serialize, Deserialize)]
pub struct Sc {
    pub mode: Mode,
    /// index into refdigest::ALGS
    pub alg: usize,
    #[serde(with = "esc")]
    pub data: Vec<u8>,
    pub script: Vec<ReadStep>,
    /// wrap the simulated reader in a BufReader of this capacity (as a caller might)
    pub wrap: Option<usize>,
    /// algorithm-name strings to push through Digest::from_str
    pub names: Vec<String>,
    /// an earlier call on the same thread (state left by earlier calls must
    /// not leak into the next one): hashed and judged first
    #[serde(default)]
    pub prelude: Option<Box<Call>>,
    /// a nested call: when the outer reader is asked for its `at_read`-th read,
    /// it first hashes another input with the library (same thread, outer call
    /// in flight) - as a reader that is itself built on the library would.
    /// Both results must be right.
    #[serde(default)]
    pub nested: Option<Box<Nested>>,
    /// a still earlier call on the same thread whose reader panics after `give`
    /// bytes; the panic is caught
    #[serde(default)]
    pub panicked: Option<Box<PanicCall>>,
}

#[derive(Clone, Debug, Serialize, Deserialize)]
pub struct PanicCall {
    pub mode: Mode,
    pub alg: usize,
    #[serde(with = "esc")]
    pub data: Vec<u8>,
    pub give: usize,
}

#[derive(Clone, Debug, Serialize, Deserialize)]
pub struct Nested {
    pub at_read: u64,
    pub call: Call,
}

#[derive(Clone, Debug, Serialize, Deserialize)]
pub struct Call {
    pub mode: Mode,
    pub alg: usize,
    #[serde(with = "esc")]
    pub data: Vec<u8>,
    pub script: Vec<ReadStep>,
}

pub struct C13;

const BOUNDARY_LENS: [usize; 19] = [
    0, 1, 2, 55, 56, 57, 63, 64, 65, 111, 112, 113, 119, 120, 127, 128, 129, 191, 256,
];

pub fn gen_bytes(rng: &mut Rng, n: usize) -> Vec<u8> {
    match rng.below(4) {
        0 => (0..n).map(|_| rng.below(256) as u8).collect(),
        1 => vec![b'a'; n],
        2 => (0..n).map(|i| (i % 251) as u8).collect(),
        _ => (0..n)
            .map(|_| *rng.pick(b"abc \n\t$NetBSD\r\x00\xff\xc3\xa9"))
            .collect(),
    }
}

pub fn gen_patch(rng: &mut Rng, tier: Tier) -> Vec<u8> {
    let nlines = rng.urange(0, 12);
    let mut out = Vec::new();
    for i in 0..nlines {
        let mut kind = rng.below(18);
        if kind == 17 && !rng.chance(1, 6) {
            kind = 12; // huge lines are rare: they cost a millisecond each
        }
        let line: Vec<u8> = match kind {
            17 => {
                // a line longer than 64 KiB; the marker (if any) lies beyond or
                // straddles the 65536-byte mark
                let n = rng.urange(65_560, 70_000);
                let mut l = vec![b'y'; n];
                if rng.chance(3, 4) {
                    let at = match rng.below(3) {
                        0 => 65_536 - rng.urange(1, 6),
                        1 => rng.urange(65_536, n - 7),
                        _ => n - 7,
                    };
                    l[at..at + 7].copy_from_slice(b"$NetBSD");
                }
                l
            }
            14 => rng
                .pick(&[
                    &b"$$NetBSD$"[..],
                    &b"$Net$NetBSD: x $"[..],
                    &b"$NetBS$NetBSD"[..],
                    &b"x$$NetBSD: y $ z"[..],
                    &b"$N$Ne$Net$NetB$NetBS$NetBSD"[..],
                    &b"${PREFIX}/bin $NetBSD$"[..],
                ])
                .to_vec(),
            15 if rng.chance(1, 2) => rng
                .pick(&[
                    &b"$NetBSD: patch-ab,v 1.3 2003/05/06 jos\xe9 Exp $"[..],
                    &b"\xff $NetBSD$"[..],
                    &b"$NetBSD\x80"[..],
                    &b"/* r\xe9sum\xe9 $NetBSD: x $ */"[..],
                    "$NetBSD: patch-ac,v 1.1 jos\u{e9} Exp $".as_bytes(),
                    "\u{65e5}\u{672c} $NetBSD$ \u{1f600}".as_bytes(),
                ])
                .to_vec(),
            15 => b"$NetBSD$NetBSD$".to_vec(),
            16 => b"$NetBS$NetBS".to_vec(),
            0 => b"$NetBSD$".to_vec(),
            1 => b"$NetBSD: patch-aa,v 1.2 2024/01/01 00:00:00 joe Exp $".to_vec(),
            2 => b"+/* $NetBSD: foo.c,v 1.1 $ */ int x;".to_vec(),
            3 => b"trailing marker $NetBSD".to_vec(),
            4 => b"$NetBS".to_vec(),
            5 => b"NetBSD without dollar".to_vec(),
            6 => b"$NetB".to_vec(), // next line may start with "SD"
            7 => b"SD$ continues".to_vec(),
            8 => Vec::new(),
            9 => b"--- a/file.c\r".to_vec(),
            10 => {
                // very long line, possibly beyond BufReader's 8 KiB
                let n = if tier == Tier::Thorough || rng.chance(1, 4) {
                    rng.urange(8000, 9000)
                } else {
                    rng.urange(100, 600)
                };
                let mut l = vec![b'x'; n];
                if rng.chance(1, 2) {
                    let at = rng.usize_below(n.saturating_sub(7).max(1));
                    if at + 7 <= n {
                        l[at..at + 7].copy_from_slice(b"$NetBSD");
                    }
                }
                l
            }
            11 => "@@ -1,3 +1,4 @@ caf\u{e9} \u{1f600}".as_bytes().to_vec(),
            _ => {
                let n = rng.urange(1, 40);
                (0..n)
                    .map(|_| *rng.pick(b"abcdefghij +-@$NetBSD"))
                    .filter(|c| *c != b'\n')
                    .collect()
            }
        };
        out.extend_from_slice(&line);
        if i + 1 < nlines || rng.chance(3, 4) {
            out.push(b'\n');
        }
    }
    out
}

/// Interesting absolute positions at which a read may end.
fn interesting_positions(data: &[u8]) -> Vec<usize> {
    let mut v = Vec::new();
    for (i, &c) in data.iter().enumerate() {
        if c == b'\n' {
            v.push(i);
            v.push(i + 1);
        }
        if c == b'$' && data[i..].starts_with(b"$NetBSD") {
            for k in 0..=7 {
                v.push(i + k);
            }
        }
    }
    for b in [55usize, 56, 63, 64, 65, 119, 120, 127, 128, 129] {
        if b < data.len() {
            v.push(b);
        }
    }
    v.retain(|&p| p > 0 && p < data.len());
    v.sort_unstable();
    v.dedup();
    v
}

fn gen_script(rng: &mut Rng, data: &[u8]) -> Vec<ReadStep> {
    let len = data.len();
    let mut script: Vec<ReadStep> = Vec::new();
    match rng.below(6) {
        0 => {}
        1 => {
            for _ in 0..len.min(2048) {
                script.push(ReadStep::Give(1));
            }
        }
        2 => {
            let maxc = *rng.pick(&[2usize, 3, 8, 64, 700, 9000]);
            let mut left = len;
            while left > 0 && script.len() < 4096 {
                let n = rng.urange(1, maxc);
                script.push(ReadStep::Give(n));
                left = left.saturating_sub(n);
            }
        }
        3 => {
            // boundaries at a random subset of interesting positions
            let pos = interesting_positions(data);
            let mut last = 0usize;
            for p in pos {
                if rng.chance(1, 2) {
                    script.push(ReadStep::Give(p - last));
                    last = p;
                }
            }
        }
        4 => {
            let s = *rng.pick(&[2usize, 3, 7, 55, 56, 63, 64, 65, 128, 8191, 8192, 8193]);
            let mut left = len;
            while left > 0 && script.len() < 4096 {
                script.push(ReadStep::Give(s));
                left = left.saturating_sub(s);
            }
        }
        _ => {
            // one split
            if len > 1 {
                script.push(ReadStep::Give(rng.urange(1, len - 1)));
            }
        }
    }
    // fault overlay (swarm: each kind enabled per run with its own coin)
    if rng.chance(1, 2) {
        // EINTR sprinkled, possibly consecutive, possibly first and last
        let n = rng.urange(1, 4);
        for _ in 0..n {
            let at = match rng.below(4) {
                0 => 0,
                1 => script.len(),
                _ => rng.urange(0, script.len()),
            };
            let burst = if rng.chance(1, 4) { rng.urange(2, 3) } else { 1 };
            for _ in 0..burst {
                script.insert(at.min(script.len()), ReadStep::Intr);
            }
        }
        if rng.chance(1, 4) {
            // EINTR at the call that would otherwise report EOF
            let given: usize = script
                .iter()
                .map(|s| if let ReadStep::Give(n) = s { *n } else { 0 })
                .fold(0usize, |a, b| a.saturating_add(b));
            if given < len {
                script.push(ReadStep::Give(usize::MAX));
                if len > 8192 {
                    for _ in 0..(len / 8192 + 1) {
                        script.push(ReadStep::Give(usize::MAX));
                    }
                }
            }
            script.push(ReadStep::Intr);
        }
    }
    if rng.chance(1, 40) {
        // an EINTR storm: hundreds of consecutive interruptions are still only
        // interruptions
        let at = rng.urange(0, script.len());
        // (rarely beyond 65535 in a row: a retry counter may be narrow)
        let n = if rng.chance(1, 25) { *rng.pick(&[65_535usize, 65_536, 65_537, 70_000]) } else { rng.urange(120, 600) };
        let storm = vec![ReadStep::Intr; n];
        script.splice(at..at, storm);
    }
    if rng.chance(1, 4) {
        let kind = *rng.pick(&ErrKind::ALL);
        let at = match rng.below(4) {
            0 => 0,
            1 => script.len(),
            _ => rng.urange(0, script.len()),
        };
        script.insert(at, if rng.chance(1, 3) { ReadStep::FailForever(kind) } else { ReadStep::Fail(kind) });
    } else if rng.chance(1, 6) {
        let at = rng.urange(0, script.len());
        script.insert(at, ReadStep::Eof);
    }
    script
}

fn gen_names(rng: &mut Rng) -> Vec<String> {
    let mut v = Vec::new();
    // a case pattern of a canonical name
    let base = *rng.pick(&ALG_NAMES);
    let s: String = base
        .chars()
        .map(|c| {
            if rng.chance(1, 2) {
                c.to_ascii_uppercase()
            } else {
                c.to_ascii_lowercase()
            }
        })
        .collect();
    v.push(s);
    // a near miss
    let near = [
        "SHA", "SHA2", "SHA-1", "SHA1 ", " SHA1", "SHA384", "SHA5120", "MD4", "MD55", "RMD-160",
        "RIPEMD160", "RMD16", "BLAKE2", "BLAKE2b", "BLAKE2s256", "", "Size", "sha_256", "SHA256\n",
        "5DM", "1AHS",
    ];
    v.push(rng.pick(&near).to_string());
    v
}

/// Expected parse of an algorithm name: ASCII case-insensitive match against
/// the six canonical spellings.
fn model_name(s: &str) -> Option<usize> {
    ALG_NAMES.iter().position(|n| n.eq_ignore_ascii_case(s))
}

fn is_lower_hex(s: &str) -> bool {
    s.bytes().all(|c| c.is_ascii_digit() || (b'a'..=b'f').contains(&c))
}

impl Property for C13 {
    type Sc = Sc;

    fn id(&self) -> &'static str {
        "C13"
    }
    fn level(&self) -> &'static str {
        "fault_enumeration"
    }
    fn runs(&self, tier: Tier) -> u64 {
        match tier {
            Tier::Quick => 40_000,
            Tier::Thorough => 25_000_000,
        }
    }

    fn generate(&self, rng: &mut Rng, _run: u64, tier: Tier) -> Sc {
        let mode = if rng.chance(1, 2) { Mode::File } else { Mode::Patch };
        let alg = rng.usize_below(6);
        let data = match mode {
            Mode::File => {
                let n = match rng.below(10) {
                    // scale: 64 KiB and beyond (strategy switches, late faults), 1 MiB and beyond
                    0 if rng.chance(1, 25) => *rng.pick(&[65_535usize, 65_536, 65_537, 70_000, 131_072, 131_073, 1_048_576, 1_048_577, 1_050_000, 2_097_153]),
                    0..=4 => *rng.pick(&BOUNDARY_LENS),
                    5..=7 => rng.urange(0, 300),
                    8 => rng.urange(300, 9000),
                    _ => {
                        if tier == Tier::Thorough {
                            rng.urange(8000, 33000)
                        } else {
                            rng.urange(8000, 17000)
                        }
                    }
                };
                if rng.chance(1, 6) {
                    // file content that looks like a patch (must NOT be filtered)
                    let mut d = gen_patch(rng, tier);
                    d.truncate(n.max(8));
                    d
                } else {
                    gen_bytes(rng, n)
                }
            }
            Mode::Patch => gen_patch(rng, tier),
        };
        let script = gen_script(rng, &data);
        let wrap = if rng.chance(1, 5) {
            Some(*rng.pick(&[1usize, 2, 7, 64, 4096, 8192, 16384]))
        } else {
            None
        };
        let names = gen_names(rng);
        let prelude = if rng.chance(1, 4) {
            // an earlier call, usually one that ends in a fault part-way through a line
            let pmode = if rng.chance(2, 3) { Mode::Patch } else { Mode::File };
            let pdata = match pmode {
                Mode::Patch => gen_patch(rng, tier),
                Mode::File => {
                    let n = rng.urange(1, 200);
                    gen_bytes(rng, n)
                }
            };
            let mut pscript = Vec::new();
            if !pdata.is_empty() {
                let cut = rng.urange(0, pdata.len().min(300));
                if cut > 0 {
                    pscript.push(ReadStep::Give(cut));
                }
                match rng.below(4) {
                    0 => {}
                    1 => pscript.push(ReadStep::Eof),
                    2 => pscript.push(ReadStep::Intr),
                    _ => pscript.push(ReadStep::Fail(*rng.pick(&ErrKind::ALL))),
                }
            }
            Some(Box::new(Call {
                mode: pmode,
                alg: if rng.chance(1, 2) { alg } else { rng.usize_below(6) },
                data: pdata,
                script: pscript,
            }))
        } else {
            None
        };
        let nested = if rng.chance(1, 6) {
            let nmode = if rng.chance(1, 2) { Mode::Patch } else { Mode::File };
            let ndata = match nmode {
                Mode::Patch => gen_patch(rng, Tier::Quick),
                Mode::File => {
                    let n = *rng.pick(&[0usize, 1, 64, 200, 9000, 20000]);
                    gen_bytes(rng, n)
                }
            };
            // the inner reader only splits its reads (no faults): its result is fully determined
            let nscript: Vec<ReadStep> = (0..rng.urange(0, 6)).map(|_| ReadStep::Give(rng.urange(1, 300))).collect();
            Some(Box::new(Nested {
                at_read: rng.urange(1, 8) as u64,
                call: Call {
                    mode: nmode,
                    // usually the same algorithm and entry point as the outer call
                    alg: if rng.chance(3, 4) { alg } else { rng.usize_below(6) },
                    data: ndata,
                    script: nscript,
                },
            }))
        } else {
            None
        };
        Sc {
            mode,
            alg,
            data,
            script,
            wrap,
            names,
            prelude,
            nested,
            panicked: if rng.chance(1, 8) {
                let pmode = if rng.chance(2, 3) { Mode::Patch } else { Mode::File };
                let data: Vec<u8> = rng
                    .pick(&[
                        &b"+an ordinary line, cut before its end"[..],
                        &b"$NetBSD: patch-aa,v 1.1 2024/01/01 00:00:00 cut"[..],
                        &b"first\nsecond line, cut"[..],
                        &b"x"[..],
                        &b"$NetBSD$\n+kept\n-cut"[..],
                    ])
                    .to_vec();
                let give = if rng.chance(1, 2) { data.len() } else { rng.urange(1, data.len()) };
                Some(Box::new(PanicCall {
                    mode: pmode,
                    alg: rng.usize_below(6),
                    data,
                    give,
                }))
            } else {
                None
            },
        }
    }

    fn execute(&self, sc: &Sc, ctx: &mut Ctx) -> Outcome {
        if let Some(pc) = &sc.panicked {
            ctx.fault("reader_panicked_in_earlier_call");
            let alg = ALGS[pc.alg];
            let mode = pc.mode;
            call_with_panicking_reader(pc.data.clone(), pc.give, |r| {
                let _ = match mode {
                    Mode::File => alg.hash_file(r),
                    Mode::Patch => alg.hash_patch(r),
                };
            });
        }
        if let Some(pre) = &sc.prelude {
            ctx.probe("earlier-call-on-same-thread");
            let pre_sc = Sc {
                mode: pre.mode,
                alg: pre.alg,
                data: pre.data.clone(),
                script: pre.script.clone(),
                wrap: None,
                names: vec![],
                prelude: None,
                nested: None,
                panicked: None,
            };
            if let Err(mut v) = one_call(&pre_sc, ctx) {
                v.detail = format!("(earlier call) {}", v.detail);
                return Err(v);
            }
        }
        if let Err(mut v) = one_call(sc, ctx) {
            if sc.prelude.is_some() {
                v.detail = format!("(after an earlier call on the same thread) {}", v.detail);
            }
            return Err(v);
        }
        Ok(())
    }

    fn shrink(&self, sc: &Sc, emit: &mut dyn FnMut(Sc) -> bool) {
        macro_rules! push {
            ($e:expr) => {
                if emit($e) {
                    return;
                }
            };
        }
        if let Some(pre) = &sc.prelude {
            push!(Sc { prelude: None, ..sc.clone() });
            for d in shrink_vec(&pre.data) {
                let mut p2 = pre.clone();
                p2.data = d;
                push!(Sc { prelude: Some(p2), ..sc.clone() });
            }
            for st in shrink_vec(&pre.script) {
                let mut p2 = pre.clone();
                p2.script = st;
                push!(Sc { prelude: Some(p2), ..sc.clone() });
            }
        }
        for s in shrink_vec(&sc.script) {
            push!(Sc { script: s, ..sc.clone() });
        }
        for d in shrink_vec(&sc.data) {
            push!(Sc { data: d, ..sc.clone() });
        }
        if sc.wrap.is_some() {
            push!(Sc { wrap: None, ..sc.clone() });
        }
        if !sc.names.is_empty() {
            for n in shrink_vec(&sc.names) {
                push!(Sc { names: n, ..sc.clone() });
            }
        }
        // simplify bytes
        if sc.data.iter().any(|&c| c != b'a' && c != b'\n') && sc.data.len() <= 64 {
            for i in 0..sc.data.len() {
                if sc.data[i] != b'a' && sc.data[i] != b'\n' {
                    let mut d = sc.data.clone();
                    d[i] = b'a';
                    push!(Sc { data: d, ..sc.clone() });
                }
            }
        }
        // simplify script steps
        for (i, st) in sc.script.iter().enumerate().take(32) {
            if let ReadStep::Give(n) = st {
                for m in shrink_usize(*n) {
                    if m >= 1 {
                        let mut s = sc.script.clone();
                        s[i] = ReadStep::Give(m);
                        push!(Sc { script: s, ..sc.clone() });
                    }
                }
            }
        }
    }

    fn sweep(&self, sc: &Sc, run: u64, tier: Tier) -> Vec<Sc> {
        // complete enumerations for small inputs: every single-read split
        // position, and a hard error / EINTR / EOF at every call index of the
        // generated script
        let every = if tier == Tier::Quick { 16 } else { 64 };
        if run % every != 0 || sc.data.len() > 300 {
            return Vec::new();
        }
        let mut out = Vec::new();
        for k in 1..sc.data.len() {
            out.push(Sc {
                script: vec![ReadStep::Give(k)],
                wrap: None,
                names: vec![],
                ..sc.clone()
            });
        }
        let base: Vec<ReadStep> = sc
            .script
            .iter()
            .cloned()
            .filter(|s| matches!(s, ReadStep::Give(_) | ReadStep::Intr))
            .take(48)
            .collect();
        for k in 0..=base.len() {
            for st in [ReadStep::Fail(ErrKind::Other), ReadStep::FailForever(ErrKind::TimedOut), ReadStep::Intr, ReadStep::Eof] {
                let mut s = base.clone();
                s.insert(k, st);
                out.push(Sc {
                    script: s,
                    names: vec![],
                    ..sc.clone()
                });
            }
        }
        out
    }

    fn classify(&self, sc: &Sc, _v: &Violation) -> String {
        format!("{:?}", sc.mode)
    }

    fn work_factor(&self) -> Option<u64> {
        Some(256)
    }
    fn rule(&self) -> String {
        "Each run draws (entry point, algorithm, byte string, read script) from one PRNG; the script \
         decides the size of every read and where EINTR, one hard error or an early EOF falls. A run \
         is non-trivial when at least one read boundary fell strictly inside the data or a fault \
         fired; distinct = distinct schedule signatures (hash of the sequence of read events with \
         their lengths and fault kinds) among non-trivial runs. For inputs of at most 300 bytes a \
         subset of runs additionally sweeps every single-split position and a fault at every call \
         index of the script (sweep_evaluations; complete for that input)."
            .to_string()
    }
    fn components_real(&self) -> Vec<&'static str> {
        vec![
            "pkgsrc::digest::Digest::{hash_file,hash_patch,hash_str,from_str,Display}",
            "std::io::copy, std::io::BufReader, BufRead::split",
            "RustCrypto hashers",
        ]
    }
    fn components_stub(&self) -> Vec<&'static str> {
        vec!["the reader (SimReader: scripted io::Read)"]
    }
    fn assumptions(&self) -> Vec<&'static str> {
        vec![
            "the reference is the RustCrypto one-shot digest of the whole byte string, pinned by embedded published known-answer vectors for four inputs per algorithm",
            "algorithm-name case-insensitivity is checked over ASCII case patterns only",
            "after an early EOF the expected value is the digest of the delivered prefix",
        ]
    }
    fn expected_probes(&self) -> Vec<&'static str> {
        vec![
            "marker-straddles-read",
            "newline-straddles-read",
            "line-longer-than-buffer",
            "final-line-unterminated",
            "eintr-at-first-call",
            "eintr-at-eof-call",
            "error-at-first-call",
            "error-at-middle-call",
            "error-at-last-call",
            "entry-hash_file",
            "entry-hash_patch",
            "entry-hash_str",
            "earlier-call-on-same-thread",
            "eintr-storm-over-100",
            "line-longer-than-64KiB",
        ]
    }
}

/// One hashing call over a scripted reader, judged against the reference.
fn one_call(sc: &Sc, ctx: &mut Ctx) -> Outcome {
        let alg = ALGS[sc.alg];
        let reader = SimReader::new(sc.data.clone(), sc.script.clone());
        let inner_result: std::rc::Rc<std::cell::RefCell<Option<Result<String, String>>>> = Default::default();
        let reader = match &sc.nested {
            Some(n) => {
                let call = n.call.clone();
                let slot = inner_result.clone();
                reader.with_hook(
                    n.at_read,
                    Box::new(move || {
                        let mut r = SimReader::new(call.data.clone(), call.script.clone());
                        let res = match call.mode {
                            Mode::File => ALGS[call.alg].hash_file(&mut r),
                            Mode::Patch => ALGS[call.alg].hash_patch(&mut r),
                        };
                        *slot.borrow_mut() = Some(res.map_err(|e| e.to_string()));
                    }),
                )
            }
            None => reader,
        };

        let log = reader.log();
        let work = Work::start();
        let res = match (sc.mode, sc.wrap) {
            (Mode::File, None) => {
                let mut r = reader;
                alg.hash_file(&mut r)
            }
            (Mode::Patch, None) => {
                let mut r = reader;
                alg.hash_patch(&mut r)
            }
            (Mode::File, Some(c)) => {
                let mut r = BufReader::with_capacity(c, reader);
                alg.hash_file(&mut r)
            }
            (Mode::Patch, Some(c)) => {
                let mut r = BufReader::with_capacity(c, reader);
                alg.hash_patch(&mut r)
            }
        };
        work.stop(ctx, sc.data.len());
        if let Some(n) = &sc.nested {
            if let Some(got) = inner_result.borrow().as_ref() {
                ctx.probe("nested-call-ran");
                ctx.fault("nested_call_in_reader");
                let want = match n.call.mode {
                    Mode::File => ref_digest(n.call.alg, &n.call.data),
                    Mode::Patch => ref_digest(n.call.alg, &crate::refdigest::patch_filter(&n.call.data)),
                };
                ensure!(
                    got.as_ref() == Ok(&want),
                    "nested-call-wrong",
                    "a call made from inside the outer call's reader ({:?}, {} bytes, {}) returned {:?}, the standard gives {}",
                    n.call.mode,
                    n.call.data.len(),
                    ALG_NAMES[n.call.alg],
                    got,
                    want
                );
            }
        }
        let log = log.borrow();
        log.absorb(ctx, "read");
        ctx.event("mode", sc.mode as u64, sc.alg as u64);
        ctx.probe(match sc.mode {
            Mode::File => "entry-hash_file",
            Mode::Patch => "entry-hash_patch",
        });
        ctx.probe(["alg-BLAKE2s", "alg-MD5", "alg-RMD160", "alg-SHA1", "alg-SHA256", "alg-SHA512"][sc.alg]);

        // read boundaries actually used
        let mut bounds: Vec<usize> = Vec::new();
        {
            let mut pos = 0usize;
            for (k, n) in &log.events {
                if *k == 0 && *n > 0 {
                    pos += *n as usize;
                    if pos < sc.data.len() {
                        bounds.push(pos);
                    }
                }
            }
        }
        if !bounds.is_empty() {
            ctx.nontrivial = true;
        }
        if sc.mode == Mode::Patch {
            for (i, &c) in sc.data.iter().enumerate() {
                if c == b'$' && sc.data[i..].starts_with(b"$NetBSD") && bounds.iter().any(|&b| b > i && b < i + 7) {
                    ctx.probe("marker-straddles-read");
                }
                if c == b'\n' && bounds.contains(&i) {
                    ctx.probe("newline-straddles-read");
                }
            }
            if sc.data.split(|&c| c == b'\n').any(|l| l.len() > 8192) {
                ctx.probe("line-longer-than-buffer");
            }
            if !sc.data.is_empty() && *sc.data.last().unwrap() != b'\n' {
                ctx.probe("final-line-unterminated");
            }
        }
        if let Some((1, _)) = log.events.first() {
            ctx.probe("eintr-at-first-call");
        }
        if log.intr > 100 {
            ctx.probe("eintr-storm-over-100");
        }
        if sc.data.split(|&c| c == b'\n').any(|l| l.len() > 65_536) {
            ctx.probe("line-longer-than-64KiB");
        }
        {
            // EINTR at the call that would have reported EOF
            let mut pos = 0usize;
            for (k, n) in &log.events {
                if *k == 0 {
                    pos += *n as usize;
                }
                if *k == 1 && pos == sc.data.len() {
                    ctx.probe("eintr-at-eof-call");
                    break;
                }
            }
        }
        if let Some((c, _)) = log.hard_errors.first() {
            ctx.probe(if *c == 1 {
                "error-at-first-call"
            } else if log.delivered >= sc.data.len() {
                "error-at-last-call"
            } else {
                "error-at-middle-call"
            });
        }

        let reference = |bytes: &[u8]| -> String {
            match sc.mode {
                Mode::File => ref_digest(sc.alg, bytes),
                Mode::Patch => ref_digest(sc.alg, &patch_filter(bytes)),
            }
        };

        if let Some((_, kind)) = log.hard_errors.first() {
            match &res {
                Ok(h) => fail!(
                    "error-hashed-past",
                    "reader failed with {:?} but {:?} returned Ok({})",
                    kind,
                    sc.mode,
                    h
                ),
                Err(DigestError::Io(e)) => {
                    ensure!(
                        e.kind() == kind.to_io(),
                        "error-kind-changed",
                        "reader failed with {:?} but the error returned has kind {:?}",
                        kind,
                        e.kind()
                    );
                }
                Err(e) => fail!("error-kind-changed", "reader failed with {:?} but got {:?}", kind, e),
            }
        } else {
            let expect = match log.early_eof_at {
                Some(k) => reference(&sc.data[..k]),
                None => reference(&sc.data),
            };
            match &res {
                Ok(h) => {
                    ensure!(
                        h.len() == HEX_LEN[sc.alg] && is_lower_hex(h),
                        "digest-format",
                        "{} output {:?} is not {} lower-case hex digits",
                        ALG_NAMES[sc.alg],
                        h,
                        HEX_LEN[sc.alg]
                    );
                    if *h != expect {
                        let clause = match (sc.mode, log.intr > 0, log.short > 0) {
                            (_, true, _) => "digest-mismatch-under-eintr",
                            (Mode::File, _, true) => "digest-mismatch-file-short-reads",
                            (Mode::Patch, _, true) => "digest-mismatch-patch-short-reads",
                            (Mode::File, _, _) => "digest-mismatch-file",
                            (Mode::Patch, _, _) => "digest-mismatch-patch",
                        };
                        fail!(
                            clause,
                            "{} {:?} of {} bytes: got {}, standard algorithm gives {}",
                            ALG_NAMES[sc.alg],
                            sc.mode,
                            sc.data.len(),
                            h,
                            expect
                        );
                    }
                }
                Err(DigestError::Io(e)) if e.kind() == std::io::ErrorKind::Interrupted => {
                    fail!("eintr-not-transparent", "Interrupted surfaced as an error: {:?}", e)
                }
                Err(e) => fail!("spurious-error", "no fault injected but got {:?}", e),
            }
        }

        // string entry point agrees with the reader entry point and the reference
        if sc.mode == Mode::File {
            if let Ok(s) = std::str::from_utf8(&sc.data) {
                ctx.probe("entry-hash_str");
                match alg.hash_str(s) {
                    Ok(h) => ensure!(
                        h == ref_digest(sc.alg, &sc.data),
                        "digest-mismatch-str",
                        "{} hash_str of {} bytes: got {}, standard gives {}",
                        ALG_NAMES[sc.alg],
                        s.len(),
                        h,
                        ref_digest(sc.alg, &sc.data)
                    ),
                    Err(e) => fail!("spurious-error", "hash_str failed: {:?}", e),
                }
                // the same text at every alignment: a slice that starts 1..7 bytes into an
                // allocation (a field of a larger string) must hash like an owned copy
                let off = 1 + (sc.data.len() + sc.alg) % 7;
                let mut padded = String::with_capacity(off + s.len());
                padded.push_str(&"~~~~~~~"[..off]);
                padded.push_str(s);
                ctx.probe("entry-hash_str-unaligned");
                match alg.hash_str(&padded[off..]) {
                    Ok(h) => ensure!(
                        h == ref_digest(sc.alg, &sc.data),
                        "digest-mismatch-str",
                        "{} hash_str of {} bytes starting {} bytes into an allocation: got {}, standard gives {}",
                        ALG_NAMES[sc.alg],
                        s.len(),
                        off,
                        h,
                        ref_digest(sc.alg, &sc.data)
                    ),
                    Err(e) => fail!("spurious-error", "hash_str failed: {:?}", e),
                }
            }
        }

        // name table
        let disp = format!("{}", alg);
        ensure!(
            disp == ALG_NAMES[sc.alg],
            "name-display",
            "Display of {:?} is {:?}, canonical spelling is {:?}",
            alg,
            disp,
            ALG_NAMES[sc.alg]
        );
        for n in &sc.names {
            let got = Digest::from_str(n);
            match (model_name(n), &got) {
                (Some(i), Ok(d)) => ensure!(
                    *d == ALGS[i],
                    "name-parse",
                    "{:?} parsed as {:?}, expected {:?}",
                    n,
                    d,
                    ALGS[i]
                ),
                (Some(i), Err(e)) => fail!("name-parse", "{:?} should parse as {} but got {:?}", n, ALG_NAMES[i], e),
                (None, Ok(d)) => fail!("name-parse", "{:?} is not an algorithm name but parsed as {:?}", n, d),
                (None, Err(DigestError::Unsupported(_))) => {}
                (None, Err(e)) => fail!("name-parse", "{:?}: expected Unsupported, got {:?}", n, e),
            }
        }
        Ok(())
    }
