//! C17 (scoped) - no corrupted document, delivered through the library's
//! documented pipelines over the simulator's seams, makes a parser or matcher
//! panic or hang; every Summary call history returns normally.
//!
//! Five pipelines, each real library code wired as the crate's docs/examples
//! wire it.  Documents are valid documents corrupted "in storage or in flight"
//! by a seeded list of corruption faults, then delivered under reader / writer
//! / file-system faults.  Monitors: panic (catch_unwind), seam-call budgets
//! (deterministic), and the batch runner's wall-clock hang watchdog.

use crate::c16;
use crate::c20::{entry, FILE_NAMES, F_COMMENT, F_CONTENTS, F_DESC, F_SIZE_PKG, NFILES};
use crate::disk::SimDisk;
use crate::framework::*;
use crate::model::*;
use crate::refdigest::{ref_digest, ALGS, ALG_NAMES};
use crate::rng::Rng;
use crate::seams::*;
use pkgsrc::digest::Digest;
use pkgsrc::distinfo::{Distinfo, EntryType};
use pkgsrc::pkgdb::PkgDB;
use pkgsrc::plist::{Plist, PlistEntry};
use pkgsrc::summary::{Summary, SummaryStream, SummaryVariable};
use pkgsrc::verif_hooks::set_hash_seed;
use pkgsrc::{Depend, Dewey, Metadata, MetadataEntry, Pattern, PkgName, PkgPath, ScanIndex};
use serde::{Deserialize, Serialize};
use std::ffi::{OsStr, OsString};
use std::io::{BufReader, Write};
use std::os::unix::ffi::{OsStrExt, OsStringExt};
use std::path::{Component, Path};
use std::str::FromStr;

#[derive(Clone, Debug, Serialize, Deserialize, PartialEq, Eq)]
pub struct Bytes(#[serde(with = "esc")] pub Vec<u8>);

#[derive(Clone, Debug, Serialize, Deserialize)]
pub struct BPkg {
    pub name: Bytes,
    /// the 14 '+' files: None = absent
    pub files: Vec<Option<Bytes>>,
}

#[derive(Clone, Debug, Serialize, Deserialize)]
pub enum DOp {
    Set { var: usize, val: Val },
    Push { var: usize, line: String },
    Clone { seed: u64 },
    Print,
    ParsePrinted { seed: u64 },
    StreamPrinted { chunks: Vec<usize> },
    EntriesMut,
}

#[derive(Clone, Debug, Serialize, Deserialize)]
pub enum Sc {
    /// bulk scan -> dependency resolution
    A {
        doc: Bytes,
        script: Vec<ReadStep>,
        buffered: Option<usize>,
        corruptions: Vec<String>,
    },
    /// package database -> pkg_summary
    B {
        pkgs: Vec<BPkg>,
        chunks: Vec<usize>,
        hash_seed: u64,
        extra_names: Vec<String>,
        corruptions: Vec<String>,
    },
    /// distinfo -> verification
    C {
        distinfo: Bytes,
        files: Vec<(String, Bytes)>,
        lookups: Vec<Bytes>,
        script: Vec<ReadStep>,
        corruptions: Vec<String>,
        /// garbled algorithm names pushed through Digest::from_str
        #[serde(default)]
        alg_names: Vec<String>,
    },
    /// Summary call histories
    D { seed: u64, ops: Vec<DOp> },
    /// pkg_summary stream -> entries -> dependency / conflict resolution
    E {
        doc: Bytes,
        script: Vec<ReadStep>,
        hash_seed: u64,
        corruptions: Vec<String>,
    },
}

pub struct C17;

macro_rules! ep {
    ($ctx:expr, $name:literal, $ok:expr) => {
        if $ok {
            $ctx.probe(concat!("ep ", $name, " ok"));
        } else {
            $ctx.probe(concat!("ep ", $name, " err"));
        }
        $ctx.steps += 1;
    };
}

/// Malformed input is reported through the error type: formatting that error
/// (Display and Debug) is part of the entry point and must return normally too.
fn fe<T, E: std::fmt::Display + std::fmt::Debug>(r: &Result<T, E>) {
    if let Err(e) = r {
        let _ = format!("{} {:?}", e, e);
    }
}

// ---------------------------------------------------------------------------
// csh-style expansion count (the harness's own expander): used to decide
// whether exponential cost is the *specified* semantics of a brace pattern.
// ---------------------------------------------------------------------------

fn count_seq(b: &[u8], pos: &mut usize, depth: usize) -> Option<u64> {
    let mut prod: u64 = 1;
    while *pos < b.len() {
        match b[*pos] {
            b'{' => {
                *pos += 1;
                let mut sum: u64 = 0;
                loop {
                    let c = count_seq(b, pos, depth + 1)?;
                    sum = sum.saturating_add(c);
                    if *pos >= b.len() {
                        return None; // unbalanced
                    }
                    match b[*pos] {
                        b',' => {
                            *pos += 1;
                        }
                        b'}' => {
                            *pos += 1;
                            break;
                        }
                        _ => return None,
                    }
                }
                prod = prod.saturating_mul(sum.max(1));
            }
            b',' | b'}' if depth > 0 => return Some(prod),
            b'}' => return None,
            _ => *pos += 1,
        }
    }
    if depth > 0 {
        None
    } else {
        Some(prod)
    }
}

pub fn expansion_count(p: &str) -> Option<u64> {
    let mut pos = 0;
    count_seq(p.as_bytes(), &mut pos, 0)
}

// ---------------------------------------------------------------------------
// corruption faults
// ---------------------------------------------------------------------------

fn corrupt(rng: &mut Rng, doc: &mut Vec<u8>, other: &[u8], log: &mut Vec<String>) {
    let n = doc.len();
    let kind = rng.below(23);
    let name = match kind {
        22 => {
            // scale: an innermost brace group grows to more than 255 / 256 alternatives
            let opens: Vec<usize> = (0..n).filter(|&i| doc[i] == b'{').collect();
            let inner: Vec<(usize, usize)> = opens
                .iter()
                .filter_map(|&a| {
                    let l = doc[a + 1..].iter().position(|&c| c == b'{' || c == b'}')?;
                    if doc[a + 1 + l] == b'}' {
                        Some((a, a + 1 + l))
                    } else {
                        None
                    }
                })
                .collect();
            if !inner.is_empty() {
                let (a, b) = *rng.pick(&inner);
                let k = *rng.pick(&[253usize, 254, 255, 256, 257, 300]);
                let mut extra = String::new();
                for i in 0..k {
                    extra.push_str(&format!(",w{}", i));
                }
                let at = if rng.chance(1, 2) { b } else { a + 1 };
                if at == a + 1 {
                    // in front: "w0,w1,...," then the old alternatives
                    let mut e = extra[1..].to_string();
                    e.push(',');
                    doc.splice(at..at, e.bytes());
                } else {
                    doc.splice(at..at, extra.bytes());
                }
            }
            "widen_brace_group"
        }
        21 => {
            // an innermost brace group G becomes {G..G,G..G,z}: groups nested inside
            // alternatives.  The csh expansion stays small (m * |G|^k + 1 strings) while
            // the product over all groups (|G|^(m*k)) is astronomically larger - a
            // matcher must cost the former, not the latter
            let opens: Vec<usize> = (0..n).filter(|&i| doc[i] == b'{').collect();
            let inner: Vec<(usize, usize)> = opens
                .iter()
                .filter_map(|&a| {
                    let l = doc[a + 1..].iter().position(|&c| c == b'{' || c == b'}')?;
                    if doc[a + 1 + l] == b'}' && l <= 24 {
                        Some((a, a + 1 + l))
                    } else {
                        None
                    }
                })
                .collect();
            if !inner.is_empty() {
                let (a, b) = *rng.pick(&inner);
                let g: Vec<u8> = doc[a..=b].to_vec();
                let alts = g.iter().filter(|&&c| c == b',').count() as u32 + 1;
                let m = rng.urange(2, 3);
                // keep the inherent expansion count of the new group at or below 400
                let mut k = rng.urange(4, 7) as u32;
                while k > 1 && (m as u64) * (alts as u64).pow(k) > 400 {
                    k -= 1;
                }
                let mut rep: Vec<u8> = vec![b'{'];
                for j in 0..m {
                    if j > 0 {
                        rep.push(b',');
                    }
                    rep.push(b'a' + j as u8);
                    for _ in 0..k {
                        rep.extend_from_slice(&g);
                    }
                }
                rep.extend_from_slice(b",z}");
                doc.splice(a..=b, rep);
            }
            "nest_brace_groups"
        }
        20 => {
            // a digit run becomes a value at a boundary of the integer types, or one
            // that is large without being absurd (a size a careless reader would
            // allocate or loop for)
            let runs: Vec<(usize, usize)> = {
                let mut v = Vec::new();
                let mut i = 0;
                while i < n {
                    if doc[i].is_ascii_digit() {
                        let mut j = i;
                        while j < n && doc[j].is_ascii_digit() {
                            j += 1;
                        }
                        v.push((i, j));
                        i = j;
                    } else {
                        i += 1;
                    }
                }
                v
            };
            if !runs.is_empty() {
                let (a, b) = *rng.pick(&runs);
                let val: &str = rng.pick_str(&[
                    "0", "00", "255", "256", "65535", "65536", "2147483647", "2147483648", "4294967295", "4294967296",
                    "9223372036854775807", "9223372036854775808", "18446744073709551615", "18446744073709551616",
                    "1073741824", "8589934592", "1099511627776", "281474976710656", "999999999999999999", "-1",
                ]);
                doc.splice(a..b, val.bytes());
            }
            "boundary_number"
        }
        18 | 19 => {
            // blanks that are not the ASCII space/tab: VT, FF, CR, the ISO-8859-1
            // NEL and NBSP bytes (white space when a byte is read as a char),
            // information separators, Unicode spaces - alone, after an existing
            // blank, or as the whole argument of a line ("@cmd <blanks>")
            let pool: [&[u8]; 14] = [
                b"\x0b", b"\x0c", b"\r", b"\x85", b"\xa0", b"\x1c", b"\x1f", b" ", b"\t",
                "\u{a0}".as_bytes(), "\u{2028}".as_bytes(), "\u{3000}".as_bytes(), "\u{1680}".as_bytes(), "\u{2003}".as_bytes(),
            ];
            let mut ins: Vec<u8> = Vec::new();
            for _ in 0..rng.urange(1, 3) {
                let piece: &[u8] = *rng.pick(&pool[..]);
                ins.extend_from_slice(piece);
            }
            let blanks: Vec<usize> = (0..n).filter(|&i| doc[i] == b' ' || doc[i] == b'\t').collect();
            match rng.below(3) {
                0 if !blanks.is_empty() => {
                    // right after an existing blank
                    let at = *rng.pick(&blanks) + 1;
                    doc.splice(at..at, ins);
                }
                1 if !blanks.is_empty() => {
                    // everything between a blank and the end of its line becomes odd blanks
                    let at = *rng.pick(&blanks) + 1;
                    let end = doc[at..].iter().position(|&c| c == b'\n').map(|i| at + i).unwrap_or(n);
                    doc.splice(at..end, ins);
                }
                _ => {
                    let mut at = rng.urange(0, n);
                    while at < n && (doc[at] & 0xc0) == 0x80 {
                        at += 1;
                    }
                    doc.splice(at..at, ins);
                }
            }
            "odd_blank"
        }
        16 | 17 => {
            // grow a line / token with ASCII filler so that a multi-byte character
            // straddles a size boundary (counted from the start of the line, of the
            // document, or of the insertion point): fixed-size buffers, length
            // guards and byte-offset slices live at such boundaries
            let mut at = rng.urange(0, n);
            while at < n && (doc[at] & 0xc0) == 0x80 {
                at += 1;
            }
            let line_start = doc[..at].iter().rposition(|&c| c == b'\n').map(|i| i + 1).unwrap_or(0);
            let ref_off = match rng.below(3) {
                0 => at - line_start,
                1 => at,
                _ => 0,
            };
            let bounds: [usize; 14] = [4, 7, 8, 15, 16, 24, 32, 64, 128, 255, 256, 1024, 4096, 8192];
            let cands: Vec<usize> = bounds.iter().cloned().filter(|&b| b > ref_off).collect();
            let b = if cands.is_empty() { ref_off + 16 } else { *rng.pick(&cands[..cands.len().min(8)]) };
            let mb: &str = rng.pick_str(&["\u{e9}", "\u{fc}", "\u{20ac}", "\u{3042}", "\u{1f600}", "\u{10ffff}"]);
            // the character starts j bytes before the boundary (j = 0: right at it)
            let j = rng.urange(0, mb.len() - 1).min(b - ref_off);
            let fill_len = b - ref_off - j;
            let filler = *rng.pick(b"a1x-._A");
            let mut ins: Vec<u8> = std::iter::repeat(filler).take(fill_len).collect();
            ins.extend_from_slice(mb.as_bytes());
            if rng.chance(1, 2) {
                ins.extend(std::iter::repeat(filler).take(rng.urange(0, 20)));
            }
            doc.splice(at..at, ins);
            "straddle_boundary"
        }
        14 | 15 => {
            // exotic but valid UTF-8: Unicode digits and numerics that are not
            // ASCII digits, characters whose case mapping changes length,
            // ligatures, combining marks, zero-width and bidi controls
            let pool: [&str; 24] = [
                "\u{23a}", "\u{23e}", "\u{1e9e}", "\u{149}",
                "\u{b2}", "\u{bd}", "\u{663}", "\u{ff13}", "\u{2163}", "\u{1d7d8}", "\u{1c5}", "\u{df}", "\u{130}", "\u{fb01}",
                "\u{301}", "\u{200d}", "\u{200f}", "\u{2028}", "\u{a0}", "\u{3000}", "\u{212a}", "\u{17f}", "\u{e9}", "\u{10ffff}",
            ];
            // at a character boundary when the document is valid UTF-8
            let mut at = rng.urange(0, n);
            while at < n && (doc[at] & 0xc0) == 0x80 {
                at += 1;
            }
            let k = rng.urange(1, 3);
            let mut ins = Vec::new();
            for _ in 0..k {
                ins.extend_from_slice(rng.pick_str(&pool).as_bytes());
            }
            doc.splice(at..at, ins);
            "insert_unicode"
        }
        0 => {
            if n > 0 {
                let i = rng.usize_below(n);
                doc[i] ^= 1 << rng.below(8);
            }
            "bit_flip"
        }
        1 => {
            if n > 1 {
                let a = rng.usize_below(n);
                let l = rng.urange(1, 12).min(n - a);
                doc.drain(a..a + l);
            }
            "drop_span"
        }
        2 | 3 => {
            if n > 0 {
                let a = rng.usize_below(n);
                let l = rng.urange(1, 24).min(n - a);
                let span: Vec<u8> = doc[a..a + l].to_vec();
                let times = if kind == 3 { rng.urange(2, 10) } else { 1 };
                let mut ins = Vec::new();
                for _ in 0..times {
                    ins.extend_from_slice(&span);
                }
                let at = a + l;
                doc.splice(at..at, ins);
            }
            "duplicate_span"
        }
        4 => {
            if !other.is_empty() {
                let a = rng.usize_below(other.len());
                let l = rng.urange(1, 40).min(other.len() - a);
                let at = rng.urange(0, n);
                doc.splice(at..at, other[a..a + l].to_vec());
            }
            "splice"
        }
        5 => {
            if n > 0 {
                doc.truncate(rng.usize_below(n));
            }
            "truncate"
        }
        6 => {
            let at = rng.urange(0, n);
            doc.insert(at, 0);
            "insert_nul"
        }
        7 => {
            let at = rng.urange(0, n);
            let seqs: [&[u8]; 5] = [b"\xff", b"\xc3", b"\x80", b"\xe2\x82", b"\xf0\x9f"];
            doc.splice(at..at, rng.pick(&seqs).to_vec());
            "insert_non_utf8"
        }
        8 => {
            let at = rng.urange(0, n);
            if rng.chance(1, 8) {
                // scale: one line beyond 64 KiB (and with it a document beyond 64 KiB)
                let c = *rng.pick(b"a1 .n/x");
                let l = rng.urange(65_530, 70_000);
                doc.splice(at..at, std::iter::repeat(c).take(l));
                "huge_line"
            } else {
                let c = *rng.pick(b"a1 {,*[-=<>.n");
                let l = rng.urange(300, 6000);
                doc.splice(at..at, std::iter::repeat(c).take(l));
                "long_line"
            }
        }
        9 => {
            for b in doc.iter_mut() {
                if rng.chance(1, 3) {
                    *b = rng.below(256) as u8;
                }
            }
            "garble_all"
        }
        10 => {
            // a digit run becomes a huge number
            if let Some(i) = (0..n).filter(|&i| doc[i].is_ascii_digit()).nth(rng.usize_below(n.max(1)) % 7) {
                let l = rng.urange(17, 40);
                let digits: Vec<u8> = (0..l).map(|_| b'0' + rng.below(10) as u8).collect();
                doc.splice(i..i, digits);
            }
            "huge_number"
        }
        11 => {
            // repeat a brace group several times (more alternation groups)
            let opens: Vec<usize> = (0..n).filter(|&i| doc[i] == b'{').collect();
            if !opens.is_empty() {
                let a = *rng.pick(&opens);
                if let Some(l) = doc[a..].iter().position(|&c| c == b'}') {
                    let mut span = doc[a..a + l + 1].to_vec();
                    span.push(b'-');
                    let times = rng.urange(2, 9);
                    let mut ins = Vec::new();
                    for _ in 0..times {
                        ins.extend_from_slice(&span);
                    }
                    doc.splice(a..a, ins);
                }
            }
            "repeat_brace_group"
        }
        12 => {
            if n > 1 {
                let a = rng.usize_below(n);
                let b = rng.usize_below(n);
                doc.swap(a, b);
            }
            "swap_bytes"
        }
        _ => {
            // replace one byte by a structural character
            if n > 0 {
                let i = rng.usize_below(n);
                doc[i] = *rng.pick(b"\n\r\t =:{},<>*?[]()-@+$\\/");
            }
            "byte_set"
        }
    };
    log.push(name.to_string());
}

fn corrupt_some(rng: &mut Rng, doc: &mut Vec<u8>, other: &[u8], log: &mut Vec<String>) {
    // tuned so that most of each document stays intact
    let k = match rng.below(8) {
        0 => 0,
        1..=4 => 1,
        5..=6 => 2,
        _ => 3,
    };
    for _ in 0..k {
        corrupt(rng, doc, other, log);
    }
    // documents stay small (honest cost: microseconds) unless a scale corruption fired
    let cap = if log.iter().any(|k| k == "huge_line") { 262_144 } else { 16_384 };
    if doc.len() > cap {
        doc.truncate(cap);
    }
}

// ---------------------------------------------------------------------------
// valid documents
// ---------------------------------------------------------------------------

const PLIST_LINES: [&str; 34] = [
    "@name caf\u{e9}-1.0\u{e9}",
    "@pkgdep d\u{e9}p>=1\u{20ac}",
    "@owner r\u{f6}\u{f6}t\u{1f600}",
    "@blddep x-1.0\u{65e5}",
    "@comment $NetBSD$",
    "@name foo-1.0",
    "@pkgdep dep-pkg1-[0-9]*",
    "@pkgdep dep-pkg2>=2.0",
    "@pkgdep {mysql,mariadb}-client>=5<9",
    "@blddep dep-pkg1-1.0nb2",
    "@pkgcfl cfl-pkg1<2.0",
    "@display MESSAGE",
    "@cwd /opt/pkg",
    "@option preserve",
    "@mode 0644",
    "@owner root",
    "@group wheel",
    "bin/foo",
    "@exec echo \"I just installed F=%F D=%D B=%B f=%f\"",
    "@unexec rm -f %D/share/x",
    "@mode",
    "@owner",
    "@group",
    "@pkgdir /opt/pkg/share/junk",
    "@dirrm share/obsolete",
    "@ignore",
    "+BUILD_INFO",
    "man/man1/foo.1",
    "@src /x",
    "@cd /y/",
    "a",
    "",
    "@comment",
    "share/doc/caf\u{e9}.txt",
];

const BUILD_INFO_LINES: [&str; 14] = [
    "BUILD_DATE=2019-08-12 15:58:02 +0100",
    "CATEGORIES=devel pkgtools",
    "HOMEPAGE=https://example.org/",
    "LICENSE=modified-bsd",
    "MACHINE_ARCH=x86_64",
    "OPSYS=NetBSD",
    "OS_VERSION=10.0",
    "PKG_OPTIONS=inet6 ssl",
    "PKGPATH=pkgtools/foo",
    "PKGTOOLS_VERSION=20240101",
    "PROVIDES=/opt/pkg/lib/libfoo.so.1",
    "REQUIRES=/usr/lib/libc.so.12",
    "SUPERSEDES=oldfoo-[0-9]*",
    "CC_VERSION=gcc-12.3",
];

fn gen_plist(rng: &mut Rng) -> Vec<u8> {
    let n = rng.urange(1, 14);
    let mut s = String::new();
    for i in 0..n {
        s.push_str(rng.pick_str(&PLIST_LINES));
        if i + 1 < n || rng.chance(3, 4) {
            s.push('\n');
        }
    }
    s.into_bytes()
}

fn gen_pkg_files(rng: &mut Rng) -> Vec<Option<Bytes>> {
    let mut v: Vec<Option<Bytes>> = Vec::new();
    for f in 0..NFILES {
        let mandatory = f == F_COMMENT || f == F_CONTENTS || f == F_DESC;
        let usually = f == 0 || f == F_SIZE_PKG;
        if !mandatory && rng.chance(1, if usually { 10 } else { 3 }) {
            v.push(None);
            continue;
        }
        let c: Vec<u8> = match f {
            0 => {
                let mut s = String::new();
                if rng.chance(3, 4) {
                    // a complete +BUILD_INFO, in the order the build wrote it
                    let mut idx: Vec<usize> = (0..BUILD_INFO_LINES.len()).collect();
                    rng.shuffle(&mut idx);
                    for i in idx {
                        s.push_str(BUILD_INFO_LINES[i]);
                        s.push('\n');
                    }
                } else {
                    let k = rng.urange(1, 10);
                    for _ in 0..k {
                        s.push_str(rng.pick_str(&BUILD_INFO_LINES));
                        s.push('\n');
                    }
                }
                s.into_bytes()
            }
            x if x == F_CONTENTS => gen_plist(rng),
            x if x == F_COMMENT => b"A package comment\n".to_vec(),
            x if x == F_DESC => b"line one\nline two\n\nline four\n".to_vec(),
            12 | 13 => format!("{}\n", rng.below(1 << 33)).into_bytes(),
            _ => {
                let k = rng.urange(0, 4);
                let mut s = String::new();
                for _ in 0..k {
                    s.push_str(rng.pick_str(&["foo-1.0", "automatic=yes", "$NetBSD: x $", "echo hi", ""]));
                    s.push('\n');
                }
                s.into_bytes()
            }
        };
        v.push(Some(Bytes(c)));
    }
    v
}

const C_FILE_NAMES: [&str; 8] = [
    "foo-1.0.tar.gz",
    "sub/foo-1.0.tar.gz",
    "patch-aa",
    "patch-Makefile",
    "emul-linux-patch-ab",
    "patch-2.7.6.tar.xz",
    "data.bin",
    "b/a/f.tgz",
];

fn gen_distinfo(rng: &mut Rng, files: &[(String, Bytes)]) -> Vec<u8> {
    let mut s = String::from("$NetBSD: distinfo,v 1.80 2024/05/27 23:27:10 riastradh Exp $\n\n");
    for (name, content) in files {
        let mut algs: Vec<usize> = (0..6).collect();
        rng.shuffle(&mut algs);
        algs.truncate(rng.urange(1, 3));
        for a in algs {
            // distfile hashes are right; patch hashes may be "wrong" (unfiltered) - irrelevant here
            s.push_str(&format!("{} ({}) = {}\n", ALG_NAMES[a], name, ref_digest(a, &content.0)));
        }
        if rng.chance(2, 3) {
            s.push_str(&format!("Size ({}) = {} bytes\n", name, content.0.len()));
        }
    }
    s.into_bytes()
}

fn gen_dop_val(rng: &mut Rng, var: usize) -> Val {
    let weird = |rng: &mut Rng| -> String {
        match rng.below(12) {
            0 => String::new(),
            1 => "a\nb".to_string(),
            2 => "a\r\nb\r".to_string(),
            3 => "\n\n".to_string(),
            4 => "x\0y".to_string(),
            5 => "VAR=value=more".to_string(),
            6 => "x".repeat(rng.urange(1000, 70000)),
            7 => "PKGNAME=evil-1.0\n\nBUILD_DATE=x".to_string(),
            _ => gen_text(rng, false, true),
        }
    };
    match VARS[var].kind {
        Kind::S => Val::S(weird(rng)),
        Kind::I => Val::I(gen_int(rng)),
        Kind::A => {
            let n = rng.urange(0, 4);
            Val::A((0..n).map(|_| weird(rng)).collect())
        }
    }
}

// ---------------------------------------------------------------------------
// pipelines
// ---------------------------------------------------------------------------

/// Pattern tokens are clipped to 160 bytes (honest cost: microseconds) - except
/// brace patterns with few glob characters, which may hold a group of hundreds
/// of alternatives: their cost is bounded by the expansion count instead.
fn clip_pattern(s: &str) -> &str {
    let globs = s.bytes().filter(|c| matches!(c, b'*' | b'?' | b'[')).count();
    if s.contains('{') && globs <= 8 {
        clip(s, 4096)
    } else {
        clip(s, 160)
    }
}

fn clip(s: &str, max: usize) -> &str {
    if s.len() <= max {
        return s;
    }
    let mut e = max;
    while !s.is_char_boundary(e) {
        e -= 1;
    }
    &s[..e]
}

fn exercise_pattern(ctx: &mut Ctx, pat: &Pattern, names: &[String]) {
    let text = pat.pattern().to_string();
    // exponential expansion of a brace pattern is the specified semantics, not a defect
    let inherent = if text.contains('{') { expansion_count(&text) } else { Some(1) };
    match inherent {
        Some(n) if n <= 1024 => {}
        _ => {
            ctx.probe("skipped-inherently-exponential-pattern");
            return;
        }
    }
    if text.contains('{') {
        ctx.probe("alternate-pattern-matched");
    }
    // the work a brace pattern may honestly cost grows with its expansion count
    let weight = inherent.unwrap_or(1).max(1) as usize * (text.len() + 64);
    // witnesses: names derived from the pattern text itself (metacharacters
    // replaced), with and without their dashes, so that both candidates of a
    // best_match really match and dash-less names are ranked too
    let witness: String = text
        .chars()
        .filter_map(|c| match c {
            '*' | '{' | '}' | '[' | ']' | '<' | '>' | '=' | ',' => None,
            '?' => Some('x'),
            c => Some(c),
        })
        .take(48)
        .collect();
    let mut extended: Vec<String> = names.to_vec();
    if !witness.is_empty() {
        extended.push(witness.clone());
        extended.push(witness.replace('-', ""));
        extended.push(format!("{}-", witness));
    }
    // one long name (8-64 KiB, derived from the pattern text alone): a matcher or a
    // version tokeniser must stay linear in the name - the work meter sees a
    // quadratic copy here although it still finishes in milliseconds
    {
        let h = crate::rng::hash_str(&text);
        let unit: &str = ["a", "1.", "x9", "alpha", ".0", "rc1", "é", "-", "nb"][(h % 9) as usize];
        let len = 8192 + (h >> 8) as usize % 57344;
        let mut long = if witness.is_empty() { String::from("w-") } else { format!("{}-", witness) };
        while long.len() < len {
            long.push_str(unit);
        }
        extended.push(long);
    }
    let names = &extended;
    for n in names {
        let m = metered!(ctx, n.len() + weight, pat.matches(n));
        ep!(ctx, "Pattern::matches", m);
    }
    for w in names.windows(2) {
        let b = metered!(ctx, w[0].len() + w[1].len() + 2 * weight, pat.best_match(&w[0], &w[1]));
        ep!(ctx, "Pattern::best_match", b.is_some());
    }
}

fn pipeline_a(doc: &[u8], script: &[ReadStep], buffered: Option<usize>, ctx: &mut Ctx) -> Outcome {
    // in a fifth of the runs the reader itself reads another small index with the
    // library (same thread, outer read in flight): a nested call must return too
    let nested_at: Option<u64> = if doc.len() % 5 == 0 { Some(1 + (doc.len() % 3) as u64) } else { None };
    let nested_hook = || -> Box<dyn FnMut()> {
        Box::new(|| {
            let r = ScanIndex::from_reader(&b"PKGNAME=nested-1.0\nALL_DEPENDS=x-[0-9]*:../../cat/x\n"[..]);
            let _ = r.map(|v| v.len());
        })
    };
    if nested_at.is_some() {
        ctx.fault("nested_read_in_reader");
    }
    let res = match buffered {
        None => {
            let mut r = SimBufReader::new(doc.to_vec(), script.to_vec());
            if let Some(at) = nested_at {
                r = r.with_hook(at, nested_hook());
            }
            let log = r.log();
            let res = metered!(ctx, doc.len(), ScanIndex::from_reader(r));
            log.borrow().absorb(ctx, "fill_buf");
            res
        }
        Some(c) => {
            let mut r = SimReader::new(doc.to_vec(), script.to_vec());
            if let Some(at) = nested_at {
                r = r.with_hook(at, nested_hook());
            }
            let log = r.log();
            let res = metered!(ctx, doc.len() + c, ScanIndex::from_reader(BufReader::with_capacity(c.max(1), r)));
            log.borrow().absorb(ctx, "fill_buf");
            res
        }
    };
    fe(&res);
    ep!(ctx, "ScanIndex::from_reader", res.is_ok());
    let text = String::from_utf8_lossy(doc).into_owned();
    let mut names: Vec<String> = Vec::new();
    let mut depends: Vec<Depend> = Vec::new();
    if let Ok(list) = &res {
        for r in list.iter().take(12) {
            names.push(clip(r.pkgname.pkgname(), 64).to_string());
            for d in r.all_depends.iter().take(8) {
                depends.push(d.clone());
            }
            if let Some(p) = &r.pkg_location {
                let _ = (p.as_path(), p.as_full_path());
            }
        }
    }
    // harvest what the records held even when the read failed as a whole
    for line in text.lines().take(200) {
        let line = line.trim();
        if let Some(v) = line.strip_prefix("PKGNAME=") {
            if names.len() < 12 {
                names.push(clip(v, 64).to_string());
            }
        }
        if let Some(v) = line.strip_prefix("PKG_LOCATION=") {
            let r = PkgPath::new(clip(v, 200));
            fe(&r);
            ep!(ctx, "PkgPath::new", r.is_ok());
            if let Ok(p) = r {
                let again = PkgPath::from_str(&p.as_full_path().to_string_lossy());
                ep!(ctx, "PkgPath::from_str", again.is_ok());
            }
        }
        if let Some(v) = line.strip_prefix("ALL_DEPENDS=") {
            for tok in v.split_whitespace().take(12) {
                let tok = clip_pattern(tok);
                let r = Depend::new(tok);
                fe(&r);
                ep!(ctx, "Depend::new", r.is_ok());
                if let Ok(d) = r {
                    if depends.len() < 24 {
                        depends.push(d);
                    }
                }
                if let Some((p, _)) = tok.split_once(':') {
                    let r = metered!(ctx, p.len() + 64, Pattern::new(p));
                    fe(&r);
                    ep!(ctx, "Pattern::new", r.is_ok());
                    if p.contains(['<', '>']) && !p.contains(['{', '}']) {
                        let d = Dewey::new(p);
                        fe(&d);
                        ep!(ctx, "Dewey::new", d.is_ok());
                        if let Ok(d) = d {
                            for n in names.iter().take(4) {
                                let m = metered!(ctx, n.len() + 64, d.matches(n));
                                ep!(ctx, "Dewey::matches", m);
                            }
                        }
                    }
                }
            }
        }
    }
    if names.is_empty() {
        names.push("foo-1.0".to_string());
    }
    names.push("mysql-client-8.0nb1".to_string());
    for n in &names {
        let p = PkgName::new(n);
        let _ = (p.pkgname(), p.pkgbase(), p.pkgversion(), p.pkgrevision());
        ep!(ctx, "PkgName::new", true);
    }
    for d in &depends {
        exercise_pattern(ctx, d.pattern(), &names);
        let _ = (d.pkgpath().as_path(), d.pkgpath().as_full_path());
    }
    Ok(())
}

fn sane_dirname(b: &[u8]) -> Vec<u8> {
    let mut v: Vec<u8> = b
        .iter()
        .map(|&c| if c == b'/' || c == 0 { b'_' } else { c })
        .take(100)
        .collect();
    if v.is_empty() || v == b"." || v == b".." {
        v = b"_".to_vec();
    }
    v
}

const FIFO_PKG: &str = "zz-fifo-1.0";

fn mkfifo(path: &std::path::Path) {
    use std::os::unix::ffi::OsStrExt;
    if let Ok(c) = std::ffi::CString::new(path.as_os_str().as_bytes()) {
        // (best effort: a file system without FIFOs just lacks this one object)
        unsafe {
            libc::mkfifo(c.as_ptr(), 0o644);
        }
    }
}

fn pipeline_b(
    pkgs: &[BPkg],
    chunks: &[usize],
    hash_seed: u64,
    extra_names: &[String],
    ctx: &mut Ctx,
) -> Outcome {
    set_hash_seed(hash_seed);
    let sd = SimDisk::new();
    sd.mkdir("db");
    let dbpath = sd.path("db");
    let mut dirnames: Vec<Vec<u8>> = Vec::new();
    for p in pkgs.iter().take(4) {
        let dn = sane_dirname(&p.name.0);
        if dirnames.contains(&dn) {
            continue;
        }
        let dir = dbpath.join(OsString::from_vec(dn.clone()));
        if std::fs::create_dir_all(&dir).is_err() {
            continue;
        }
        for (f, c) in p.files.iter().enumerate().take(NFILES) {
            if let Some(c) = c {
                let _ = std::fs::write(dir.join(FILE_NAMES[f]), &c.0);
                ctx.step("store", f as u64, c.0.len() as u64);
            }
        }
        dirnames.push(dn);
    }
    if hash_seed % 7 == 2 {
        // special files where regular ones are expected: a package directory whose +COMMENT
        // is a FIFO nobody writes to (deciding whether the directory is a package must not
        // open it), and a FIFO and a symbolic-link loop directly in the database
        ctx.fault("special_files_in_db");
        let dir = dbpath.join(FIFO_PKG);
        if std::fs::create_dir_all(&dir).is_ok() {
            mkfifo(&dir.join("+COMMENT"));
            let _ = std::fs::write(dir.join("+CONTENTS"), b"@name zz-fifo-1.0\n");
            let _ = std::fs::write(dir.join("+DESC"), b"a package whose +COMMENT is a FIFO\n");
        }
        mkfifo(&dbpath.join("zz-stray-fifo-1.0"));
        let _ = std::os::unix::fs::symlink("zz-loop-1.0", dbpath.join("zz-loop-1.0"));
    }
    if hash_seed % 11 == 4 {
        // a database so deep that "<db>/<entry>" can still be named but "<db>/<entry>/+COMMENT"
        // cannot (ENAMETOOLONG): an entry like any other that is not a package
        let entry_name = "zz-long-1.0";
        let root_len = sd.root().as_os_str().len();
        let target = 4095 - (1 + entry_name.len());
        if root_len + 300 < target {
            let mut deep = sd.root().to_path_buf();
            let mut len = root_len;
            while len + 1 + 200 + 2 < target {
                deep.push("p".repeat(200));
                len += 201;
            }
            deep.push("q".repeat(target - len - 1));
            if std::fs::create_dir_all(&deep).is_ok() && std::fs::create_dir(deep.join(entry_name)).is_ok() {
                ctx.fault("database_at_path_max");
                if let Ok(mut db) = PkgDB::open(&deep) {
                    let mut n = 0;
                    while n < 8 && db.next().is_some() {
                        n += 1;
                    }
                    ep!(ctx, "PkgDB::next (database at PATH_MAX)", n < 8);
                }
            }
        }
    }
    if hash_seed % 16 == 0 {
        // the database path holds a plain file (a pkgdb.byfile.db-style database, or a
        // directory lost and replaced): opening and iterating it must return normally
        ctx.fault("db_replaced_by_file");
        let _ = std::fs::remove_dir_all(&dbpath);
        sd.write("db", b"\x00\x06\x15\x61 not a directory");
        let db = PkgDB::open(&dbpath);
        ep!(ctx, "PkgDB::open (plain file)", db.is_ok());
        if let Ok(mut db) = db {
            for _ in 0..3 {
                let item = db.next();
                ep!(ctx, "PkgDB::next (plain file)", item.is_none());
                if let Some(Ok(p)) = item {
                    let _ = (p.pkgname(), p.pkgbase(), p.pkgversion());
                }
            }
        }
        return Ok(());
    }
    let db = PkgDB::open(&dbpath);
    ep!(ctx, "PkgDB::open", db.is_ok());
    let db = match db {
        Ok(d) => d,
        Err(_) => return Ok(()),
    };
    let mut all_names: Vec<String> = Vec::new();
    let mut count = 0usize;
    // readdir order is not owned by the simulator: collect, then process in name order
    let mut listed: Vec<pkgsrc::pkgdb::Package> = Vec::new();
    let mut db = db;
    loop {
        let item = match db.next() {
            Some(i) => i,
            None => {
                // an exhausted iterator may be polled again; it must return normally
                for _ in 0..2 {
                    let again = db.next();
                    ep!(ctx, "PkgDB::next after end", again.is_none());
                }
                break;
            }
        };
        count += 1;
        ensure!(
            count <= pkgs.len() + 8,
            "liveness-iterator",
            "PkgDB iterator yielded {} items for {} directories",
            count,
            pkgs.len()
        );
        ep!(ctx, "PkgDB::next", item.is_ok());
        if let Ok(p) = item {
            listed.push(p);
        }
    }
    // a second walk during which the database directory vanishes (renamed away while
    // the handle is open, as a concurrent pkg_admin rebuild would do): the walk ends
    // or reports errors, polling it after the end returns normally
    if hash_seed % 3 == 0 {
        if let Ok(mut db2) = PkgDB::open(&dbpath) {
            ctx.fault("db_directory_vanished");
            let gone = dbpath.with_file_name("db-gone");
            let before = ((hash_seed >> 8) as usize) % (pkgs.len() + 2);
            for _ in 0..before {
                let _ = db2.next();
            }
            let renamed = std::fs::rename(&dbpath, &gone).is_ok();
            let mut polls = 0usize;
            let mut ended = 0usize;
            while ended < 3 && polls < pkgs.len() + 16 {
                polls += 1;
                if db2.next().is_none() {
                    ended += 1;
                }
            }
            ep!(ctx, "PkgDB::next (directory vanished)", ended > 0);
            drop(db2);
            if renamed {
                std::fs::rename(&gone, &dbpath).unwrap_or_else(|e| panic!("SIM-HARNESS: rename back: {}", e));
            }
        }
    }
    // handles that change threads: opened on one caller thread and dropped on the other,
    // which then opens and walks a handle of its own (both directions)
    if hash_seed % 5 == 1 && is_send_sync!(PkgDB) {
        ctx.fault("caller_thread_switch");
        let helper = Helper::new();
        let walk = |path: &std::path::Path, cap: usize| -> usize {
            let mut n = 0usize;
            if let Ok(mut d) = PkgDB::open(path) {
                while n < cap && d.next().is_some() {
                    n += 1;
                }
                let _ = d.next();
            }
            n
        };
        let cap = pkgs.len() + 16;
        if let Ok(dbx) = PkgDB::open(&dbpath) {
            helper.call(move || drop(dbx));
        }
        let n1 = helper.call(|| walk(&dbpath, cap));
        let dby = helper.call(|| PkgDB::open(&dbpath).ok());
        drop(dby);
        let n2 = walk(&dbpath, cap);
        ep!(ctx, "PkgDB walked after a handle was dropped on the other thread", n1 < cap && n2 < cap);
    }
    listed.sort_by(|a, b| a.pkgname().cmp(b.pkgname()));
    for pkg in listed {
        let _ = (pkg.pkgbase(), pkg.pkgversion());
        if pkg.pkgname() == FIFO_PKG {
            continue; // reading a FIFO nobody writes to blocks by definition
        }
        all_names.push(clip(pkg.pkgname(), 64).to_string());
        let mut md = Metadata::new();
        let mut texts: Vec<Option<String>> = Vec::new();
        for f in 0..NFILES {
            let r = pkg.read_metadata(entry(f));
            fe(&r);
            ep!(ctx, "Package::read_metadata", r.is_ok());
            if let Ok(s) = &r {
                let m = md.read_metadata(entry(f), s);
                fe(&m);
                ep!(ctx, "Metadata::read_metadata", m.is_ok());
            }
            texts.push(r.ok());
        }
        let v = md.is_valid();
        fe(&v);
        ep!(ctx, "Metadata::is_valid", v.is_ok());
        let _ = (
            md.build_info(),
            md.build_version(),
            md.comment(),
            md.contents(),
            md.deinstall(),
            md.desc(),
            md.display(),
            md.install(),
            md.installed_info(),
            md.mtree_dirs(),
            md.preserve(),
            md.required_by(),
            md.size_all(),
            md.size_pkg(),
        );
        // the raw +CONTENTS bytes (also when they are not UTF-8)
        let raw: Option<Vec<u8>> = pkgs
            .iter()
            .find(|p| sane_dirname(&p.name.0) == pkg.pkgname().as_bytes())
            .and_then(|p| p.files.get(F_CONTENTS).cloned().flatten())
            .map(|b| b.0);
        let mut sum = Summary::new();
        sum.set_pkgname(pkg.pkgname());
        if let Some(Some(c)) = texts.get(F_COMMENT) {
            sum.set_comment(c.trim());
        }
        if let Some(Some(s)) = texts.get(F_SIZE_PKG) {
            if let Ok(n) = s.trim().parse::<i64>() {
                sum.set_size_pkg(n);
            }
        }
        if let Some(Some(bi)) = texts.first() {
            for line in bi.lines().take(100) {
                let mut it = line.splitn(2, '=');
                let k = it.next().unwrap_or("");
                let v = it.next().unwrap_or("");
                let key = SummaryVariable::from_str(k);
                fe(&key);
                ep!(ctx, "SummaryVariable::from_str", key.is_ok());
                match key {
                    Ok(SummaryVariable::BuildDate) => sum.set_build_date(v),
                    Ok(SummaryVariable::Categories) => sum.set_categories(v),
                    Ok(SummaryVariable::Homepage) => sum.set_homepage(v),
                    Ok(SummaryVariable::License) => sum.set_license(v),
                    Ok(SummaryVariable::MachineArch) => sum.set_machine_arch(v),
                    Ok(SummaryVariable::Opsys) => sum.set_opsys(v),
                    Ok(SummaryVariable::OsVersion) => sum.set_os_version(v),
                    Ok(SummaryVariable::PkgOptions) => sum.set_pkg_options(v),
                    Ok(SummaryVariable::Pkgpath) => sum.set_pkgpath(v),
                    Ok(SummaryVariable::PkgtoolsVersion) => sum.set_pkgtools_version(v),
                    Ok(SummaryVariable::PrevPkgpath) => sum.set_prev_pkgpath(v),
                    Ok(SummaryVariable::Provides) => sum.push_provides(v),
                    Ok(SummaryVariable::Requires) => sum.push_requires(v),
                    Ok(SummaryVariable::Supersedes) => sum.push_supersedes(v),
                    _ => {}
                }
            }
        }
        if let Some(Some(d)) = texts.get(F_DESC) {
            for line in d.lines().take(100) {
                sum.push_description(line);
            }
        }
        if let Some(raw) = &raw {
            let pl = metered!(ctx, raw.len(), Plist::from_bytes(raw));
            fe(&pl);
            ep!(ctx, "Plist::from_bytes", pl.is_ok());
            if let Ok(pl) = &pl {
                let _ = (pl.pkgname(), pl.display(), pl.build_depends(), pl.pkgdirs(), pl.pkgrmdirs());
                let _ = (pl.files(), pl.files_prefixed(), pl.install_cmds(), pl.uninstall_cmds(), pl.is_preserve());
                for dep in pl.depends().iter().take(8) {
                    sum.push_depends(dep);
                    let p = Pattern::new(clip_pattern(dep));
                    ep!(ctx, "Pattern::new", p.is_ok());
                    if let Ok(p) = p {
                        let names = vec![
                            clip(pkg.pkgname(), 64).to_string(),
                            "dep-pkg2-2.1".to_string(),
                            "mariadb-client-5.5nb3".to_string(),
                        ];
                        exercise_pattern(ctx, &p, &names);
                    }
                }
                for cfl in pl.conflicts().iter().take(8) {
                    sum.push_conflicts(cfl);
                }
            }
            for line in raw.split(|&c| c == b'\n').take(200) {
                let e = PlistEntry::from_bytes(line);
                fe(&e);
                ep!(ctx, "PlistEntry::from_bytes", e.is_ok());
            }
        }
        let __w = Work::start(); let text = sum.to_string(); __w.stop(ctx, text.len() + 256);
        ep!(ctx, "Summary::Display", true);
        let _ = (sum.is_completed(), sum.pkgbase(), sum.pkgversion(), sum.description_as_str());
        let parsed = metered!(ctx, text.len(), Summary::from_str(&text));
        fe(&parsed);
        ep!(ctx, "Summary::from_str", parsed.is_ok());
        // the entry travels on as a pkg_summary stream, chunked
        let stream_bytes = format!("{}\n", text).into_bytes();
        let mut ss = SummaryStream::new();
        let mut pos = 0usize;
        let mut lens: Vec<usize> = Vec::new();
        for &c in chunks {
            let c = c.min(stream_bytes.len() - pos);
            lens.push(c);
            pos += c;
        }
        if pos < stream_bytes.len() {
            lens.push(stream_bytes.len() - pos);
        }
        let mut pos = 0usize;
        let mut errors_seen = 0;
        for c in lens {
            // the chunk plus what earlier writes left unfinished (back to the last separator)
            let pending_from = stream_bytes[..pos].windows(2).rposition(|w| w == b"\n\n").map(|i| i + 2).unwrap_or(0);
            let r = metered!(ctx, c + (pos - pending_from) + 64, ss.write(&stream_bytes[pos..pos + c]));
            ctx.step("write", c as u64, r.is_ok() as u64);
            fe(&r);
            ep!(ctx, "SummaryStream::write", r.is_ok());
            pos += c;
            if r.is_err() {
                // a caller that logs the error and carries on writing
                errors_seen += 1;
                if errors_seen > 3 {
                    break;
                }
            }
        }
        let _ = ss.flush();
        let _ = ss.to_string();
        let _ = ss.entries().len();
        let _ = ss.entries_mut().len();
    }
    for n in extra_names.iter().chain(all_names.iter()) {
        let r = MetadataEntry::from_filename(n);
        ep!(ctx, "MetadataEntry::from_filename", r.is_some());
    }
    set_hash_seed(0);
    Ok(())
}

fn path_is_tame(p: &Path) -> bool {
    p.as_os_str().len() < 200
        && !p.as_os_str().as_bytes().contains(&0)
        && p.components().all(|c| matches!(c, Component::Normal(_)))
        && p.components().count() >= 1
}

fn pipeline_c(
    distinfo: &[u8],
    files: &[(String, Bytes)],
    lookups: &[Bytes],
    script: &[ReadStep],
    alg_names: &[String],
    ctx: &mut Ctx,
) -> Outcome {
    for n in alg_names {
        let r = Digest::from_str(n);
        fe(&r);
        ep!(ctx, "Digest::from_str", r.is_ok());
        // the same word as the first token of a distinfo line
        let line = format!("{} (file.tgz) = 00\n", n);
        let _ = Distinfo::from_bytes(line.as_bytes()).distfiles().len();
    }
    let di = metered!(ctx, distinfo.len(), Distinfo::from_bytes(distinfo));
    ep!(ctx, "Distinfo::from_bytes", true);
    let out = metered!(ctx, distinfo.len(), di.as_bytes());
    ep!(ctx, "Distinfo::as_bytes", true);
    let di2 = Distinfo::from_bytes(&out);
    let _ = di2.as_bytes();
    let _ = di.rcsid();
    let sd = SimDisk::new();
    for (name, content) in files {
        if path_is_tame(Path::new(name)) {
            sd.write(&format!("d/{}", name), &content.0);
            ctx.step("store", content.0.len() as u64, 0);
        }
    }
    let base = sd.path("d");
    let mut n = 0;
    for e in di.distfiles().into_iter().chain(di.patchfiles()) {
        n += 1;
        if n > 16 {
            break;
        }
        let _ = e.as_bytes();
        if !path_is_tame(&e.filename) {
            ctx.probe("untame-recorded-name-not-opened");
            continue;
        }
        let p = base.join(&e.filename);
        let flen = std::fs::metadata(&p).map(|m| m.len() as usize).unwrap_or(0) + 256;
        let r = metered!(ctx, flen, di.verify_size(&p));
        fe(&r);
        ep!(ctx, "Distinfo::verify_size", r.is_ok());
        let rs = metered!(ctx, flen * e.checksums.len().max(1), di.verify_checksums(&p));
        for r in &rs {
            fe(r);
        }
        ep!(ctx, "Distinfo::verify_checksums", rs.iter().all(|r| r.is_ok()));
        for a in ALGS {
            let r = metered!(ctx, flen, di.verify_checksum(&p, a));
            fe(&r);
            ep!(ctx, "Distinfo::verify_checksum", r.is_ok());
        }
        let r = e.verify_size(&p);
        ep!(ctx, "Entry::verify_size", r.is_ok());
        let _ = metered!(ctx, flen * e.checksums.len().max(1), e.verify_checksums(&p));
        let r = e.verify_checksum(&p, Digest::SHA512);
        ep!(ctx, "Entry::verify_checksum", r.is_ok());
        let r = Distinfo::calculate_size(&p);
        ep!(ctx, "Distinfo::calculate_size", r.is_ok());
        let r = Distinfo::calculate_checksum(&p, Digest::RMD160);
        ep!(ctx, "Distinfo::calculate_checksum", r.is_ok());
    }
    for l in lookups.iter().take(8) {
        let p = Path::new(OsStr::from_bytes(&l.0));
        let r = di.find_entry(p);
        fe(&r);
        ep!(ctx, "Distinfo::find_entry", r.is_ok());
        let _ = di.get_distfile(p);
        let _ = di.get_patchfile(p);
        let _ = EntryType::from(p);
        ep!(ctx, "EntryType::from", true);
    }
    for line in distinfo.split(|&c| c == b'\n').take(100) {
        let tok: Vec<u8> = line.iter().cloned().take_while(|c| !c.is_ascii_whitespace()).take(40).collect();
        if let Ok(s) = std::str::from_utf8(&tok) {
            let r = Digest::from_str(s);
            fe(&r);
            ep!(ctx, "Digest::from_str", r.is_ok());
        }
    }
    if let Some((_, content)) = files.first() {
        for (i, a) in ALGS.iter().enumerate().take(2) {
            let mut r = SimReader::new(content.0.clone(), script.to_vec());
            let log = r.log();
            let res = if i == 0 { a.hash_file(&mut r) } else { a.hash_patch(&mut r) };
            log.borrow().absorb(ctx, "read");
            fe(&res);
            ep!(ctx, "Digest::hash_file/hash_patch", res.is_ok());
        }
    }
    Ok(())
}

fn pipeline_d(seed: u64, ops: &[DOp], ctx: &mut Ctx) -> Outcome {
    set_hash_seed(seed);
    let mut sum = Summary::new();
    let mut stream = SummaryStream::new();
    let mut d_stream_total = 0usize;
    let mut d_kept: Vec<Summary> = Vec::new();
    let mut d_kept_streams: Vec<SummaryStream> = Vec::new();
    // one history in eight has a second caller thread: operation number i is carried out
    // by it when bit i mod 63 of the mask (derived from the seed) is set
    let mask = seed.rotate_left(17) | (1 << 63);
    let helper: Option<Helper> = if seed % 8 == 3 && is_send_sync!(Summary) && is_send_sync!(SummaryStream) {
        ctx.fault("caller_thread_switch");
        Some(Helper::new())
    } else {
        None
    };
    for (oi, op) in ops.iter().enumerate() {
        let step: Outcome = on_thread!(helper, mask, oi, (|| -> Outcome {
        match op {
            DOp::Set { var, val } => {
                if *var < 23 {
                    let ok = matches!(
                        (VARS[*var].kind, val),
                        (Kind::S, Val::S(_)) | (Kind::I, Val::I(_)) | (Kind::A, Val::A(_))
                    );
                    if ok {
                        real_set(&mut sum, *var, val);
                        ctx.step("set", *var as u64, 0);
                    }
                }
            }
            DOp::Push { var, line } => {
                if [3usize, 4, 5, 19, 20, 22].contains(var) {
                    real_push(&mut sum, *var, line);
                    ctx.step("push", *var as u64, 0);
                }
            }
            DOp::Clone { seed } => {
                set_hash_seed(*seed);
                // the clone and the original both stay alive from here on: half of the
                // time the history carries on with the clone, half with the original;
                // the stream object is cloned and kept too
                let c = sum.clone();
                if seed % 2 == 0 {
                    d_kept.push(std::mem::replace(&mut sum, c));
                } else {
                    d_kept.push(c);
                }
                d_kept_streams.push(stream.clone());
                ctx.step("clone", 0, 0);
            }
            DOp::Print => {
                let _ = sum.to_string();
                ctx.step("print", 0, 0);
            }
            DOp::ParsePrinted { seed } => {
                set_hash_seed(*seed);
                let __w = Work::start(); let t = sum.to_string(); __w.stop(ctx, t.len() + 256);
                let r = metered!(ctx, t.len(), Summary::from_str(&t));
                ep!(ctx, "Summary::from_str", r.is_ok());
                if let Ok(p) = r {
                    sum = p;
                }
            }
            DOp::StreamPrinted { chunks } => {
                let t = format!("{}\n", sum).into_bytes();
                let mut pos = 0usize;
                for &c in chunks.iter().chain(std::iter::once(&usize::MAX)) {
                    let c = c.min(t.len() - pos);
                    // this stream object lives through the whole history, failed writes
                    // included, and the pinned code keeps what a failed write could not
                    // consume: the allowance is everything it was ever given
                    d_stream_total += c;
                    let r = metered!(ctx, d_stream_total + 64, stream.write(&t[pos..pos + c]));
                    ctx.step("write", c as u64, r.is_ok() as u64);
                    fe(&r);
                    ep!(ctx, "SummaryStream::write", r.is_ok());
                    pos += c;
                    if pos >= t.len() {
                        break;
                    }
                }
                let _ = stream.to_string();
            }
            DOp::EntriesMut => {
                let n = stream.entries().len();
                if n > 0 {
                    let e = &mut stream.entries_mut()[n - 1];
                    e.set_comment("touched");
                }
                ctx.step("entries_mut", n as u64, 0);
            }
        }
        // every getter after every call
        touch_all_getters(&sum);
        let _ = (sum.is_completed(), sum.pkgbase(), sum.pkgversion(), sum.description_as_str());
        ep!(ctx, "Summary getters", true);
        Ok(())
        })());
        step?;
    }
    // the objects that were cloned away earlier are still alive and still usable
    for k in d_kept.iter_mut() {
        k.push_depends("kept-[0-9]*");
        k.push_description("still here");
        k.set_comment("kept");
        let _ = k.to_string();
        ep!(ctx, "Summary calls on a kept clone", true);
    }
    sum.push_depends("after-[0-9]*");
    sum.push_description("after the clones");
    let _ = sum.to_string();
    for st in d_kept_streams.iter_mut() {
        let w = st.write(b"PKGNAME=kept-1.0\n");
        fe(&w);
        ep!(ctx, "SummaryStream::write on a kept clone", w.is_ok());
        let _ = st.to_string();
    }
    let w = stream.write(b"\n");
    fe(&w);
    set_hash_seed(0);
    Ok(())
}

const E_PATTERNS: [&str; 12] = [
    "dep-pkg1-[0-9]*",
    "dep-pkg2>=2.0",
    "librsvg>=2.12<2.41",
    "{mysql,mariadb}-client>=5<9",
    "perl>=5.0nb2",
    "py3{10,11,12}-setuptools-[0-9]*",
    "foo-1.0",
    "a-{b,c}-{d{e,f},g}-h>=1",
    "lib*-[0-9]*",
    "pkg<7alpha1",
    "x>=1.0rc2nb3",
    "gl?b-[a-z]*",
];

fn gen_summary_stream(rng: &mut Rng) -> Vec<u8> {
    let n = rng.urange(1, 4);
    let mut out = String::new();
    for _ in 0..n {
        let mut e = gen_entry(rng, false, false);
        e.insert(
            15,
            Val::S(
                rng.pick_str(&["dep-pkg1-1.0", "dep-pkg2-2.1nb3", "mysql-client-8.0.36", "perl-5.38.2", "foo-1.0", "librsvg-2.40.21"])
                    .to_string(),
            ),
        );
        e.insert(16, Val::S(rng.pick_str(&["cat/pkg", "../../lang/perl5", "databases/mysql-client"]).to_string()));
        for var in [3usize, 4, 22] {
            if rng.chance(2, 3) {
                let k = rng.urange(1, 4);
                e.insert(var, Val::A((0..k).map(|_| rng.pick_str(&E_PATTERNS).to_string()).collect()));
            }
        }
        out.push_str(&print_entry(&e));
        out.push('\n');
    }
    out.into_bytes()
}

fn pipeline_e(doc: &[u8], script: &[ReadStep], hash_seed: u64, ctx: &mut Ctx) -> Outcome {
    set_hash_seed(hash_seed);
    let mut reader = SimReader::new(doc.to_vec(), script.to_vec());
    let log = reader.log();
    let mut stream = SummaryStream::new();
    // io::copy cuts the document into the reader's pieces: each write may look at
    // the piece and at the unfinished record before it (at most one record)
    let longest_record = doc.split(|&c| c == b'\n').fold((0usize, 0usize), |(best, cur), l| if l.is_empty() { (best.max(cur), 0) } else { (best, cur + l.len() + 1) });
    let longest_record = longest_record.0.max(longest_record.1);
    let pieces = script.len() + doc.len() / 8192 + 2;
    let r = metered!(ctx, doc.len() + pieces * (longest_record + 64), std::io::copy(&mut reader, &mut stream));
    log.borrow().absorb(ctx, "read");
    fe(&r);
    ep!(ctx, "io::copy into SummaryStream", r.is_ok());
    if r.is_err() {
        // a caller that logs the error and carries on with the rest of the
        // document, and then with a further document, on the same stream object
        let delivered = log.borrow().delivered.min(doc.len());
        let mut errs = 0;
        for chunk in doc[delivered..].chunks(97).chain(std::iter::once(&b"\n\nPKGNAME=x-1\n\n"[..])) {
            let w = stream.write(chunk);
            ctx.step("write-after-error", chunk.len() as u64, w.is_ok() as u64);
            fe(&w);
            ep!(ctx, "SummaryStream::write after an error", w.is_ok());
            if w.is_err() {
                errs += 1;
                if errs > 4 {
                    break;
                }
            }
        }
    }
    let _ = stream.to_string();
    let names: Vec<String> = stream
        .entries()
        .iter()
        .filter_map(|e| e.pkgname().map(|s| clip(s, 64).to_string()))
        .chain(["dep-pkg2-2.1nb3".to_string(), "mariadb-client-5.5".to_string()])
        .take(8)
        .collect();
    for e in stream.entries().iter().take(6) {
        let _ = (e.pkgbase(), e.pkgversion(), e.is_completed(), e.description_as_str());
        if let Some(p) = e.pkgname() {
            let n = PkgName::new(clip(p, 200));
            let _ = (n.pkgbase(), n.pkgversion(), n.pkgrevision());
            ep!(ctx, "PkgName::new", true);
        }
        for p in [e.pkgpath(), e.prev_pkgpath()].into_iter().flatten() {
            let r = PkgPath::new(clip(p, 200));
            ep!(ctx, "PkgPath::new", r.is_ok());
        }
        for list in [e.depends(), e.conflicts(), e.supersedes()].into_iter().flatten() {
            for d in list.iter().take(6) {
                let p = metered!(ctx, 4096 + 64, Pattern::new(clip_pattern(d)));
                ep!(ctx, "Pattern::new", p.is_ok());
                if let Ok(p) = p {
                    exercise_pattern(ctx, &p, &names);
                }
            }
        }
    }
    set_hash_seed(0);
    Ok(())
}

fn gen_chunks(rng: &mut Rng) -> Vec<usize> {
    match rng.below(4) {
        0 => Vec::new(),
        1 => vec![1; rng.urange(1, 300)],
        2 => (0..rng.urange(1, 20)).map(|_| rng.urange(0, 40)).collect(),
        _ => vec![rng.urange(1, 500)],
    }
}

fn gen_read_script(rng: &mut Rng, len: usize) -> Vec<ReadStep> {
    let mut s: Vec<ReadStep> = Vec::new();
    match rng.below(4) {
        0 => {}
        1 => {
            for _ in 0..len.min(600) {
                s.push(ReadStep::Give(1));
            }
        }
        _ => {
            let mut left = len;
            while left > 0 && s.len() < 400 {
                let n = rng.urange(1, 50);
                s.push(ReadStep::Give(n));
                left = left.saturating_sub(n);
            }
        }
    }
    if rng.chance(1, 3) {
        let at = rng.urange(0, s.len());
        s.insert(at, ReadStep::Intr);
    }
    if rng.chance(1, 5) {
        let at = rng.urange(0, s.len());
        let k = *rng.pick(&ErrKind::ALL);
        s.insert(at, if rng.chance(1, 2) { ReadStep::FailForever(k) } else { ReadStep::Fail(k) });
    } else if rng.chance(1, 6) {
        let at = rng.urange(0, s.len());
        s.insert(at, ReadStep::Eof);
    }
    s
}

impl Property for C17 {
    type Sc = Sc;

    fn id(&self) -> &'static str {
        "C17"
    }
    fn level(&self) -> &'static str {
        "exploration"
    }
    fn runs(&self, tier: Tier) -> u64 {
        match tier {
            Tier::Quick => 24_000,
            Tier::Thorough => 8_000_000,
        }
    }

    fn generate(&self, rng: &mut Rng, run: u64, tier: Tier) -> Sc {
        // pipelines B and C build directory trees (slower): fewer of them
        match rng.below(19) {
            16..=18 => {
                let mut doc = gen_summary_stream(rng);
                let other = gen_summary_stream(rng);
                let mut log = Vec::new();
                corrupt_some(rng, &mut doc, &other, &mut log);
                let script = gen_read_script(rng, doc.len());
                Sc::E {
                    doc: Bytes(doc),
                    script,
                    hash_seed: rng.next_u64(),
                    corruptions: log,
                }
            }
            0..=5 => {
                let base = c16::C16.generate(rng, run, tier);
                let mut doc = c16::render(&base).bytes;
                let other = c16::render(&c16::C16.generate(rng, run, tier)).bytes;
                let mut log = Vec::new();
                corrupt_some(rng, &mut doc, &other, &mut log);
                let script = gen_read_script(rng, doc.len());
                Sc::A {
                    doc: Bytes(doc),
                    script,
                    buffered: if rng.chance(1, 3) {
                        Some(*rng.pick(&[1usize, 3, 64, 8192]))
                    } else {
                        None
                    },
                    corruptions: log,
                }
            }
            6..=8 => {
                let n = rng.urange(1, 3);
                let mut log = Vec::new();
                let mut pkgs: Vec<BPkg> = Vec::new();
                for _ in 0..n {
                    let mut name = rng
                        .pick(&["foo-1.0", "foo-bar-2.3nb1", "p5-Foo-0.1", "x-", "a-b-c-1", "caf\u{e9}-1.0"])
                        .as_bytes()
                        .to_vec();
                    if rng.chance(1, 4) {
                        corrupt(rng, &mut name, b"-1.0nb2", &mut log);
                    }
                    let mut files = gen_pkg_files(rng);
                    let other = gen_plist(rng);
                    for f in files.iter_mut() {
                        if let Some(b) = f {
                            if rng.chance(1, 4) {
                                corrupt_some(rng, &mut b.0, &other, &mut log);
                            }
                        }
                    }
                    // empty / garbage metadata files
                    if rng.chance(1, 6) {
                        let f = rng.usize_below(NFILES);
                        files[f] = Some(Bytes(Vec::new()));
                        log.push("empty_metadata_file".to_string());
                    }
                    if rng.chance(1, 6) {
                        let f = rng.usize_below(NFILES);
                        files[f] = Some(Bytes((0..rng.urange(1, 40)).map(|_| rng.below(256) as u8).collect()));
                        log.push("garbage_metadata_file".to_string());
                    }
                    pkgs.push(BPkg { name: Bytes(name), files });
                }
                Sc::B {
                    pkgs,
                    chunks: gen_chunks(rng),
                    hash_seed: rng.next_u64(),
                    extra_names: vec![rng
                        .pick(&["+COMMENT", "+comment", "+BADFILE", "", "+SIZE_PKG\n", "+DESC\0"])
                        .to_string()],
                    corruptions: log,
                }
            }
            9..=11 => {
                let n = rng.urange(1, 3);
                let mut files: Vec<(String, Bytes)> = Vec::new();
                for _ in 0..n {
                    let name = rng.pick(&C_FILE_NAMES).to_string();
                    if files.iter().any(|f| f.0 == name) {
                        continue;
                    }
                    let content = if name.contains("patch-") && !name.contains(".tar.") {
                        crate::c13::gen_patch(rng, tier)
                    } else {
                        let k = rng.urange(0, 300);
                        crate::c13::gen_bytes(rng, k)
                    };
                    files.push((name, Bytes(content)));
                }
                let mut distinfo = gen_distinfo(rng, &files);
                let other = gen_distinfo(rng, &files);
                let mut log = Vec::new();
                corrupt_some(rng, &mut distinfo, &other, &mut log);
                if rng.chance(1, 4) {
                    if let Some(f) = files.first_mut() {
                        corrupt_some(rng, &mut f.1 .0, b"$NetBSD$\n", &mut log);
                    }
                }
                let mut lookups: Vec<Bytes> = Vec::new();
                for _ in 0..rng.urange(1, 4) {
                    let mut l = format!(
                        "{}{}",
                        rng.pick(&["", "/usr/pkgsrc/distfiles/", "x/", "/", "../"]),
                        rng.pick(&C_FILE_NAMES)
                    )
                    .into_bytes();
                    if rng.chance(1, 3) {
                        corrupt(rng, &mut l, b"/../patch-", &mut log);
                    }
                    lookups.push(Bytes(l));
                }
                let len0 = files.first().map(|f| f.1 .0.len()).unwrap_or(0);
                let mut alg_names: Vec<String> = Vec::new();
                for _ in 0..rng.urange(1, 4) {
                    // an algorithm name with characters whose case mapping changes
                    // length, non-ASCII digits, combining marks ...
                    let base = rng.pick_str(&["SHA1", "MD5", "sha512", "RMD160", "BLAKE2s", "Size", "SHA", "S"]);
                    let mut chars: Vec<char> = base.chars().collect();
                    for _ in 0..rng.urange(1, 3) {
                        let c = *rng.pick(&[
                            '\u{23a}', '\u{23e}', '\u{130}', '\u{1e9e}', '\u{149}', '\u{df}', '\u{17f}', '\u{212a}', '\u{fb01}', '\u{301}',
                            '\u{661}', '\u{ff11}', '\u{0}', ' ',
                        ]);
                        let at = rng.urange(0, chars.len());
                        if rng.chance(1, 2) || chars.is_empty() {
                            chars.insert(at, c);
                        } else {
                            let at = at.min(chars.len() - 1);
                            chars[at] = c;
                        }
                    }
                    alg_names.push(chars.into_iter().collect());
                }
                if rng.chance(1, 2) {
                    // a name grown with filler so that a multi-byte character sits on
                    // (or straddles) byte offset k, for small k and around powers of two
                    let base = rng.pick_str(&["SHA1", "MD5", "sha512", "RMD160", "BLAKE2s", "Size", "", "Pr"]);
                    let k = match rng.below(4) {
                        0 => rng.urange(0, 40),
                        1 => *rng.pick(&[7usize, 8, 15, 16, 17, 31, 32, 33, 63, 64, 65]),
                        2 => *rng.pick(&[127usize, 128, 129, 255, 256, 257, 1023, 1024, 4095, 4096]),
                        _ => rng.urange(0, 20),
                    };
                    // (among them the three characters whose lower-case form is longer, and some
                    // whose upper-case form is: a name of 16 bytes becomes one of 17)
                    let mb: &str = rng.pick_str(&["\u{e9}", "\u{fc}", "\u{20ac}", "\u{3042}", "\u{1f600}", "\u{130}", "\u{23a}", "\u{23e}", "\u{df}", "\u{149}", "\u{fb01}"]);
                    let j = rng.urange(0, mb.len() - 1).min(k);
                    let mut name = String::from(base);
                    let filler = *rng.pick(&['-', 'a', 'S', '5', '_']);
                    while name.len() + j < k {
                        name.push(filler);
                    }
                    name.truncate(k - j.min(k)); // ASCII only so far: any cut is a boundary
                    name.push_str(mb);
                    for _ in 0..rng.urange(0, 12) {
                        name.push(filler);
                    }
                    alg_names.push(name);
                }
                Sc::C {
                    distinfo: Bytes(distinfo),
                    files,
                    lookups,
                    script: gen_read_script(rng, len0),
                    corruptions: log,
                    alg_names,
                }
            }
            _ => {
                let n = rng.urange(1, 50);
                let mut ops = Vec::new();
                if rng.chance(1, 2) {
                    // start from a complete, well-formed entry
                    let e = gen_entry(rng, false, false);
                    for (k, v) in e {
                        ops.push(DOp::Set { var: k, val: v });
                    }
                }
                // some histories keep hitting one variable (state derived from a value must
                // follow every replacement), with replacement values of one byte length
                // whose '-', '.' and multi-byte characters sit at different offsets
                const SAME_LEN: [&str; 10] = [
                    "ab-1.00", "a\u{e9}-1.0", "\u{e9}-1.00", "a-\u{e9}1.0", "ab-\u{e9}.0", "abc-\u{e9}0", "\u{20ac}-1.0", "a\u{20ac}-.0", "abcdefg", "-------",
                ];
                let focus: Option<usize> = if rng.chance(1, 4) { Some(*rng.pick(&[15usize, 15, 16, 7, 2, 1])) } else { None };
                for _ in 0..n {
                    if let Some(var) = focus {
                        if rng.chance(1, 3) {
                            ops.push(DOp::Set {
                                var,
                                val: Val::S(rng.pick_str(&SAME_LEN).to_string()),
                            });
                            continue;
                        }
                    }
                    ops.push(match rng.below(12) {
                        0 | 1 => DOp::Push {
                            var: *rng.pick(&[3usize, 4, 5, 19, 20, 22]),
                            line: match gen_dop_val(rng, 2) {
                                Val::S(s) => s,
                                _ => String::new(),
                            },
                        },
                        2 => DOp::Clone { seed: rng.next_u64() },
                        3 => DOp::Print,
                        4 => DOp::ParsePrinted { seed: rng.next_u64() },
                        5 => DOp::StreamPrinted { chunks: gen_chunks(rng) },
                        6 => DOp::EntriesMut,
                        _ => {
                            let var = rng.usize_below(23);
                            DOp::Set {
                                var,
                                val: gen_dop_val(rng, var),
                            }
                        }
                    });
                }
                Sc::D {
                    seed: rng.next_u64(),
                    ops,
                }
            }
        }
    }

    fn execute(&self, sc: &Sc, ctx: &mut Ctx) -> Outcome {
        ctx.nontrivial = true;
        match sc {
            Sc::A {
                doc,
                script,
                buffered,
                corruptions,
            } => {
                ctx.probe("pipeline-A");
                for c in corruptions {
                    count_corruption(ctx, c);
                }
                // (the document at every alignment: a slice starting 0..7 bytes into an allocation)
                let off = (doc.0.len() + script.len()) % 8;
                let mut padded = vec![b'~'; off];
                padded.extend_from_slice(&doc.0);
                pipeline_a(&padded[off..], script, *buffered, ctx)
            }
            Sc::B {
                pkgs,
                chunks,
                hash_seed,
                extra_names,
                corruptions,
            } => {
                ctx.probe("pipeline-B");
                for c in corruptions {
                    count_corruption(ctx, c);
                }
                pipeline_b(pkgs, chunks, *hash_seed, extra_names, ctx)
            }
            Sc::C {
                distinfo,
                files,
                lookups,
                script,
                corruptions,
                alg_names,
            } => {
                ctx.probe("pipeline-C");
                for c in corruptions {
                    count_corruption(ctx, c);
                }
                pipeline_c(&distinfo.0, files, lookups, script, alg_names, ctx)
            }
            Sc::D { seed, ops } => {
                ctx.probe("pipeline-D");
                ctx.sched = crate::rng::mix(ctx.sched, *seed);
                pipeline_d(*seed, ops, ctx)
            }
            Sc::E {
                doc,
                script,
                hash_seed,
                corruptions,
            } => {
                ctx.probe("pipeline-E");
                for c in corruptions {
                    count_corruption(ctx, c);
                }
                pipeline_e(&doc.0, script, *hash_seed, ctx)
            }
        }
    }

    fn shrink(&self, sc: &Sc, emit: &mut dyn FnMut(Sc) -> bool) {
        macro_rules! push {
            ($e:expr) => {
                if emit($e) {
                    return;
                }
            };
        }
        match sc {
            Sc::A { doc, script, buffered, corruptions } if !corruptions.is_empty() => {
                push!(Sc::A { doc: doc.clone(), script: script.clone(), buffered: *buffered, corruptions: vec![] });
            }
            Sc::B { pkgs, chunks, hash_seed, extra_names, corruptions } if !corruptions.is_empty() => {
                push!(Sc::B { pkgs: pkgs.clone(), chunks: chunks.clone(), hash_seed: *hash_seed, extra_names: extra_names.clone(), corruptions: vec![] });
            }
            Sc::C { distinfo, files, lookups, script, corruptions, alg_names } if !corruptions.is_empty() => {
                push!(Sc::C { distinfo: distinfo.clone(), files: files.clone(), lookups: lookups.clone(), script: script.clone(), corruptions: vec![], alg_names: alg_names.clone() });
            }
            _ => {}
        }
        match sc {
            Sc::A {
                doc,
                script,
                buffered,
                corruptions,
            } => {
                for s in shrink_vec(script) {
                    push!(Sc::A {
                        doc: doc.clone(),
                        script: s,
                        buffered: *buffered,
                        corruptions: corruptions.clone(),
                    });
                }
                if buffered.is_some() {
                    push!(Sc::A {
                        doc: doc.clone(),
                        script: script.clone(),
                        buffered: None,
                        corruptions: corruptions.clone(),
                    });
                }
                for d in shrink_bytes(&doc.0) {
                    push!(Sc::A {
                        doc: Bytes(d),
                        script: script.clone(),
                        buffered: *buffered,
                        corruptions: corruptions.clone(),
                    });
                }
            }
            Sc::B {
                pkgs,
                chunks,
                hash_seed,
                extra_names,
                corruptions,
            } => {
                let mk = |pkgs: Vec<BPkg>, chunks: Vec<usize>, extra: Vec<String>| Sc::B {
                    pkgs,
                    chunks,
                    hash_seed: *hash_seed,
                    extra_names: extra,
                    corruptions: corruptions.clone(),
                };
                if pkgs.len() > 1 {
                    for i in 0..pkgs.len() {
                        let mut p = pkgs.clone();
                        p.remove(i);
                        push!(mk(p, chunks.clone(), extra_names.clone()));
                    }
                }
                if !chunks.is_empty() {
                    push!(mk(pkgs.clone(), vec![], extra_names.clone()));
                }
                if !extra_names.is_empty() {
                    push!(mk(pkgs.clone(), chunks.clone(), vec![]));
                }
                for (pi, p) in pkgs.iter().enumerate() {
                    for f in 0..p.files.len() {
                        if let Some(b) = &p.files[f] {
                            let mandatory = f == F_COMMENT || f == F_CONTENTS || f == F_DESC;
                            if !mandatory {
                                let mut q = pkgs.clone();
                                q[pi].files[f] = None;
                                push!(mk(q, chunks.clone(), extra_names.clone()));
                            }
                            for d in shrink_bytes(&b.0) {
                                let mut q = pkgs.clone();
                                q[pi].files[f] = Some(Bytes(d));
                                push!(mk(q, chunks.clone(), extra_names.clone()));
                            }
                        }
                    }
                    for d in shrink_bytes(&p.name.0) {
                        let mut q = pkgs.clone();
                        q[pi].name = Bytes(d);
                        push!(mk(q, chunks.clone(), extra_names.clone()));
                    }
                }
            }
            Sc::C {
                distinfo,
                files,
                lookups,
                script,
                corruptions,
                alg_names,
            } => {
                for a in shrink_vec(alg_names) {
                    push!(Sc::C {
                        distinfo: distinfo.clone(),
                        files: files.clone(),
                        lookups: lookups.clone(),
                        script: script.clone(),
                        corruptions: corruptions.clone(),
                        alg_names: a,
                    });
                }
                let mk = |d: Vec<u8>, f: Vec<(String, Bytes)>, l: Vec<Bytes>, s: Vec<ReadStep>| Sc::C {
                    distinfo: Bytes(d),
                    files: f,
                    lookups: l,
                    script: s,
                    corruptions: corruptions.clone(),
                    alg_names: alg_names.clone(),
                };
                for l in shrink_vec(lookups) {
                    push!(mk(distinfo.0.clone(), files.clone(), l, script.clone()));
                }
                for f in shrink_vec(files) {
                    push!(mk(distinfo.0.clone(), f, lookups.clone(), script.clone()));
                }
                for s in shrink_vec(script) {
                    push!(mk(distinfo.0.clone(), files.clone(), lookups.clone(), s));
                }
                for d in shrink_bytes(&distinfo.0) {
                    push!(mk(d, files.clone(), lookups.clone(), script.clone()));
                }
                for (i, l) in lookups.iter().enumerate() {
                    for d in shrink_bytes(&l.0) {
                        let mut ls = lookups.clone();
                        ls[i] = Bytes(d);
                        push!(mk(distinfo.0.clone(), files.clone(), ls, script.clone()));
                    }
                }
            }
            Sc::D { seed, ops } => {
                for o in shrink_vec(ops) {
                    push!(Sc::D { seed: *seed, ops: o });
                }
                if *seed != 0 {
                    push!(Sc::D {
                        seed: 0,
                        ops: ops.clone(),
                    });
                }
            }
            Sc::E {
                doc,
                script,
                hash_seed,
                corruptions,
            } => {
                for s in shrink_vec(script) {
                    push!(Sc::E {
                        doc: doc.clone(),
                        script: s,
                        hash_seed: *hash_seed,
                        corruptions: vec![],
                    });
                }
                for d in shrink_bytes(&doc.0) {
                    push!(Sc::E {
                        doc: Bytes(d),
                        script: script.clone(),
                        hash_seed: *hash_seed,
                        corruptions: corruptions.clone(),
                    });
                }
            }
        }
    }

    fn classify(&self, sc: &Sc, _v: &Violation) -> String {
        match sc {
            Sc::A { .. } => "pipeline-A",
            Sc::B { .. } => "pipeline-B",
            Sc::C { .. } => "pipeline-C",
            Sc::D { .. } => "pipeline-D",
            Sc::E { .. } => "pipeline-E",
        }
        .to_string()
    }

    fn work_factor(&self) -> Option<u64> {
        Some(4096)
    }
    fn rule(&self) -> String {
        "Each run picks one of four pipelines (A bulk scan -> dependency resolution, B package database -> \
         pkg_summary, C distinfo -> verification, D Summary call histories, E pkg_summary stream -> dependency \
         resolution), generates valid documents, applies 0..3 \
         corruption faults (bit flip, span drop/duplication/repetition, splice, truncation, NUL, non-UTF-8, long \
         line, garble, huge number, repeated brace group, byte swap/set; plus empty and garbage metadata files) and \
         delivers them through scripted BufRead/Read seams (short reads, EINTR, hard error, early EOF), a scratch \
         package database / distfile directory, chunked SummaryStream writes and simulator-chosen hash seeds. Every \
         run is non-trivial (it carries a schedule and usually a corruption); distinct = distinct schedule signatures \
         (hash of seam events, stores, writes and operation steps). Entry points reached are counted per outcome \
         (probes 'ep <name> ok|err')."
            .to_string()
    }
    fn components_real(&self) -> Vec<&'static str> {
        vec![
            "ScanIndex::from_reader, Depend/Pattern/Dewey/PkgPath/PkgName::new, Pattern::{matches,best_match}, Dewey::matches (pipeline A)",
            "PkgDB::open + iterator, Package accessors + read_metadata, Metadata::{read_metadata,is_valid,getters}, Plist::from_bytes + all queries, PlistEntry::from_bytes, SummaryVariable::from_str, Summary setters/pushers/Display/from_str, SummaryStream write/flush/Display/entries/entries_mut, MetadataEntry::from_filename (pipeline B)",
            "Distinfo::{from_bytes,as_bytes,rcsid,distfiles,patchfiles,find_entry,get_distfile,get_patchfile,verify_size,verify_checksum,verify_checksums,calculate_size,calculate_checksum}, Entry::{verify_*,as_bytes}, EntryType::from, Digest::{from_str,hash_file,hash_patch} (pipeline C)",
            "every public Summary setter/pusher/getter, Clone, Display, FromStr under hostile hash seeds (pipeline D)",
            "std::io::copy into SummaryStream, Summary getters, Pattern/PkgName/PkgPath on DEPENDS/CONFLICTS/SUPERSEDES/PKGNAME/PKGPATH values (pipeline E)",
        ]
    }
    fn components_stub(&self) -> Vec<&'static str> {
        vec![
            "readers (SimReader/SimBufReader), write chunking, the producer of the documents, the hash seed",
        ]
    }
    fn assumptions(&self) -> Vec<&'static str> {
        vec![
            "scoped claim: corrupted valid documents through four pipelines, not arbitrary strings at every entry point",
            "brace patterns whose inherent csh expansion (harness expander) exceeds 1024 strings are not submitted to matches(): exponential expansion there is the specified semantics",
            "names passed to matchers are clipped to 64 bytes and pattern tokens to 160 bytes so that honest cost is microseconds",
            "'promptly' is decided by a wall-clock watchdog (default 3 s per run, confirmed alone in a child process before it is reported): the only non-deterministic element of the design",
            "recorded distinfo names that are absolute or contain '..' are parsed and looked up but not opened on disk",
        ]
    }
    fn expected_probes(&self) -> Vec<&'static str> {
        vec![
            "pipeline-A",
            "pipeline-B",
            "pipeline-C",
            "pipeline-D",
            "pipeline-E",
            "ep io::copy into SummaryStream ok",
            "ep io::copy into SummaryStream err",
            "ep ScanIndex::from_reader ok",
            "ep ScanIndex::from_reader err",
            "ep Depend::new ok",
            "ep Depend::new err",
            "ep Pattern::new ok",
            "ep Pattern::new err",
            "ep Pattern::matches ok",
            "ep Pattern::matches err",
            "ep Pattern::best_match ok",
            "ep Dewey::new ok",
            "ep Dewey::new err",
            "ep PkgPath::new ok",
            "ep PkgPath::new err",
            "ep PkgDB::next ok",
            "ep Package::read_metadata ok",
            "ep Package::read_metadata err",
            "ep Metadata::read_metadata ok",
            "ep Metadata::is_valid ok",
            "ep Metadata::is_valid err",
            "ep Plist::from_bytes ok",
            "ep Plist::from_bytes err",
            "ep PlistEntry::from_bytes ok",
            "ep PlistEntry::from_bytes err",
            "ep Summary::from_str ok",
            "ep Summary::from_str err",
            "ep SummaryStream::write ok",
            "ep SummaryStream::write err",
            "ep Distinfo::verify_size ok",
            "ep Distinfo::verify_size err",
            "ep Distinfo::verify_checksum ok",
            "ep Distinfo::verify_checksum err",
            "ep Distinfo::find_entry ok",
            "ep Distinfo::find_entry err",
            "ep Digest::from_str ok",
            "ep Digest::from_str err",
            "ep Digest::hash_file/hash_patch ok",
            "ep Digest::hash_file/hash_patch err",
            "alternate-pattern-matched",
        ]
    }
    fn extra_evidence(&self) -> serde_json::Value {
        serde_json::json!({
            "not_covered": [
                "PkgDB::open's read_dir(..).expect(\"fail\") (needs EACCES/EIO on an existing directory: impossible as root without an FS seam)",
                "PkgDB iterator's readdir error arm (same reason)",
                "SummaryValue::push / get_s / get_i / get_a 'internal error' panics (unreachable through the typed public API; pipeline D exercises every public call)",
                "Pattern/Dewey/PkgName/PkgPath/Depend on strings that are not corruptions of valid pbulk-index, PLIST or pkg_summary content (pure input fuzzing: outside this technique)",
                "stack exhaustion aborts the process and is reported as a harness error (exit 2), not as a VIOLATION"
            ]
        })
    }
}

fn count_corruption(ctx: &mut Ctx, name: &str) {
    let k: &'static str = match name {
        "bit_flip" => "bit_flip",
        "drop_span" => "drop_span",
        "duplicate_span" => "duplicate_span",
        "splice" => "splice",
        "truncate" => "truncate",
        "insert_nul" => "insert_nul",
        "insert_non_utf8" => "insert_non_utf8",
        "long_line" => "long_line",
        "garble_all" => "garble_all",
        "huge_number" => "huge_number",
        "repeat_brace_group" => "repeat_brace_group",
        "swap_bytes" => "swap_bytes",
        "byte_set" => "byte_set",
        "insert_unicode" => "insert_unicode",
        "straddle_boundary" => "straddle_boundary",
        "odd_blank" => "odd_blank",
        "boundary_number" => "boundary_number",
        "nest_brace_groups" => "nest_brace_groups",
        "huge_line" => "huge_line",
        "widen_brace_group" => "widen_brace_group",
        "empty_metadata_file" => "empty_metadata_file",
        "garbage_metadata_file" => "garbage_metadata_file",
        _ => "other_corruption",
    };
    ctx.fault(k);
}

/// Byte-level delta debugging candidates (lazy).
fn shrink_bytes(b: &[u8]) -> impl Iterator<Item = Vec<u8>> + '_ {
    // line-wise removal helps structured documents
    let lines: Vec<(usize, usize)> = {
        let mut v = Vec::new();
        let mut start = 0usize;
        for l in b.split_inclusive(|&c| c == b'\n') {
            v.push((start, start + l.len()));
            start += l.len();
        }
        if v.len() > 1 && v.len() <= 60 {
            v
        } else {
            Vec::new()
        }
    };
    shrink_vec(b).chain(lines.into_iter().map(move |(a, e)| {
        let mut w = b[..a].to_vec();
        w.extend_from_slice(&b[e..]);
        w
    }))
}
