//! C20 - package database iteration lists each installed package once,
//! correctly split.  The simulator owns the directory tree: crash-interrupted
//! installs at every point, stray objects, and an installer interleaved with
//! the iterator.

use crate::disk::SimDisk;
use crate::framework::*;
use crate::rng::Rng;
use crate::seams::esc;
use pkgsrc::pkgdb::PkgDB;
use pkgsrc::{Metadata, MetadataEntry};
use serde::{Deserialize, Serialize};
use std::ffi::OsString;
use std::os::unix::ffi::OsStringExt;

pub const NFILES: usize = 14;
pub const FILE_NAMES: [&str; NFILES] = [
    "+BUILD_INFO",
    "+BUILD_VERSION",
    "+COMMENT",
    "+CONTENTS",
    "+DEINSTALL",
    "+DESC",
    "+DISPLAY",
    "+INSTALL",
    "+INSTALLED_INFO",
    "+MTREE_DIRS",
    "+PRESERVE",
    "+REQUIRED_BY",
    "+SIZE_ALL",
    "+SIZE_PKG",
];
pub const F_COMMENT: usize = 2;
pub const F_CONTENTS: usize = 3;
pub const F_DESC: usize = 5;
pub const F_SIZE_ALL: usize = 12;
pub const F_SIZE_PKG: usize = 13;

pub fn entry(i: usize) -> MetadataEntry {
    match i {
        0 => MetadataEntry::BuildInfo,
        1 => MetadataEntry::BuildVersion,
        2 => MetadataEntry::Comment,
        3 => MetadataEntry::Contents,
        4 => MetadataEntry::DeInstall,
        5 => MetadataEntry::Desc,
        6 => MetadataEntry::Display,
        7 => MetadataEntry::Install,
        8 => MetadataEntry::InstalledInfo,
        9 => MetadataEntry::MtreeDirs,
        10 => MetadataEntry::Preserve,
        11 => MetadataEntry::RequiredBy,
        12 => MetadataEntry::SizeAll,
        13 => MetadataEntry::SizePkg,
        _ => unreachable!(),
    }
}

#[derive(Clone, Debug, Serialize, Deserialize)]
pub struct PkgDir {
    /// directory name (bytes: may be non-UTF-8)
    #[serde(with = "esc")]
    pub name: Vec<u8>,
    /// the installer's write order of the 14 '+' files (a permutation)
    pub order: Vec<usize>,
    /// the install was interrupted after this many files (14 = completed)
    pub crash_at: usize,
    /// content of each of the 14 files
    pub contents: Vec<String>,
    /// other files lying in the package directory (editor backups, lock files,
    /// files of a newer pkg_install): half are created before, half after the '+' files
    #[serde(default)]
    pub extras: usize,
}

#[derive(Clone, Copy, Debug, Serialize, Deserialize, PartialEq, Eq)]
pub enum DbKind {
    Dir,
    Missing,
    PlainFile,
}

#[derive(Clone, Debug, Serialize, Deserialize)]
pub struct InstallerStep {
    /// runs after this many next() calls have returned
    pub after_next: usize,
    pub pkg: usize,
    pub file: usize,
    pub add: bool,
}

#[derive(Clone, Copy, Debug, Serialize, Deserialize, PartialEq, Eq)]
pub enum LinkKind {
    /// symbolic link whose target does not exist
    Dangling,
    /// symbolic link to a plain file outside the database
    ToFile,
    /// symbolic link to a directory outside the database holding the three mandatory files
    ToCompleteDir,
    /// symbolic link to a directory outside the database holding only +COMMENT
    ToIncompleteDir,
    /// symbolic link to itself
    Loop,
    /// not a link at all: a FIFO nobody writes to (probing below it gives ENOTDIR,
    /// opening it would block)
    Fifo,
}

/// A symbolic link lying at the top level of the database.
#[derive(Clone, Debug, Serialize, Deserialize)]
pub struct LinkObj {
    pub name: String,
    pub kind: LinkKind,
}

#[derive(Clone, Debug, Serialize, Deserialize)]
pub struct Sc {
    pub db: DbKind,
    pub pkgs: Vec<PkgDir>,
    pub strays: Vec<String>,
    #[serde(default)]
    pub links: Vec<LinkObj>,
    /// interleavings of independent objects: two handles on the same database
    /// advanced in turn; another database (same directory names, other content)
    /// opened while the first one's packages are still held; the packages'
    /// Metadata values filled side by side
    #[serde(default)]
    pub twin: bool,
    pub installer: Vec<InstallerStep>,
    /// file names to push through MetadataEntry::from_filename
    pub probes: Vec<String>,
    /// 0: one caller thread.  Otherwise a second caller thread exists; next() call
    /// number i on the database handle and metadata read number i are made by it when
    /// bit i mod 63 is set (handles opened on one thread, used on the other)
    #[serde(default)]
    pub migrate: u64,
}

pub struct C20;

const NAMES: [&str; 14] = [
    "foo-1.0",
    "foo-bar-2.3nb1",
    "p5-Foo-Bar-0.1",
    "a-b-c-d-1",
    "x-",
    "-1.0",
    "foo-1.0nb12",
    "py312-setuptools-70.0",
    "caf\u{e9}-1.0",
    "foo-1.0-2",
    "pkg_install-20240101",
    "a-1",
    "nb-nb1",
    "foo--1",
];
const NODASH_NAMES: [&str; 3] = ["foo", "pkgdb", "1.0nb2"];
const LINK_NAMES: [&str; 5] = ["lnk-1.0", "zlink-0nb1", "loop-3.0", "lnk-dangling-2", "a-link-1.0-2"];
const STRAYS: [&str; 5] = ["pkgdb.byfile.db", "pkg-vulnerabilities", "stray-1.0", "+COMMENT", "README"];

fn gen_content(rng: &mut Rng, file: usize) -> String {
    if file == F_SIZE_ALL || file == F_SIZE_PKG {
        return match rng.below(4) {
            0 => "0\n".to_string(),
            1 => format!("{}", rng.below(1 << 40)),
            2 => format!(" {}\n\n", rng.below(100000)),
            _ => format!("{}\n", rng.below(1 << 31)),
        };
    }
    if rng.chance(1, 150) {
        // scale: a file of exactly 65535 / 65536 / 65537 / 131072 lines
        let n = *rng.pick(&[65_535usize, 65_536, 65_536, 65_537, 131_072]);
        return "x\n".repeat(n);
    }
    if rng.chance(1, 12) {
        // a large file whose multi-byte characters straddle 4/8/16 KiB offsets
        let pad = rng.urange(0, 3);
        let mut s = "x".repeat(pad);
        let unit = *rng.pick(&["\u{e9}", "\u{20ac}", "\u{1f600}", "ab\u{e9}"]);
        let target = *rng.pick(&[4100usize, 8200, 8200, 16400, 24600, 65600, 131200]);
        while s.len() < target {
            s.push_str(unit);
        }
        s.push('\n');
        return s;
    }
    match rng.below(10) {
        0 => String::new(),
        1 => "\n".to_string(),
        2 => "  \t\n".to_string(),
        3 => "A package comment".to_string(),
        4 => "line one\nline two\n\nline four\n".to_string(),
        5 => "@name foo-1.0\n@cwd /opt/pkg\nbin/foo\n@ignore\n+BUILD_INFO\n".to_string(),
        6 => "caf\u{e9} \u{1f600}\n".to_string(),
        7 => "OPSYS=NetBSD\nMACHINE_ARCH=x86_64\nPKGPATH=cat/pkg\n".to_string(),
        _ => {
            let n = rng.urange(1, 60);
            (0..n).map(|_| *rng.pick(b"abc xyz\n=+@/.-") as char).collect()
        }
    }
}

fn is_utf8(name: &[u8]) -> bool {
    std::str::from_utf8(name).is_ok()
}

fn has_dash(name: &[u8]) -> bool {
    name.contains(&b'-')
}

impl Property for C20 {
    type Sc = Sc;

    fn id(&self) -> &'static str {
        "C20"
    }
    fn level(&self) -> &'static str {
        "exploration"
    }
    fn runs(&self, tier: Tier) -> u64 {
        match tier {
            Tier::Quick => 5_000,
            Tier::Thorough => 2_000_000,
        }
    }

    fn generate(&self, rng: &mut Rng, _run: u64, _tier: Tier) -> Sc {
        let db = match rng.below(20) {
            0 => DbKind::Missing,
            1 => DbKind::PlainFile,
            _ => DbKind::Dir,
        };
        let n = match rng.below(10) {
            0 => 0,
            1 => 1,
            _ => rng.urange(2, 8),
        };
        let mut names: Vec<Vec<u8>> = Vec::new();
        let many = rng.chance(1, 120);
        if many {
            // scale: more than 255 / 256 package directories
            let k = *rng.pick(&[257usize, 258, 300, 520]);
            for i in 0..k {
                names.push(format!("pkg{}-1.{}nb{}", i, i % 50, i % 3).into_bytes());
            }
        }
        while !many && names.len() < n {
            let nm: Vec<u8> = match rng.below(24) {
                0 => rng.pick(&NODASH_NAMES).as_bytes().to_vec(),
                1 => b"caf\xe9-1.0".to_vec(),
                2 => b"\xff\xfe".to_vec(),
                _ => rng.pick(&NAMES).as_bytes().to_vec(),
            };
            if !names.contains(&nm) {
                names.push(nm);
            }
        }
        // names that differ only in the case of their letters are different directories
        // (SDL-1.2 next to sdl-1.2): sometimes one of the packages gets such a sibling
        if !many && !names.is_empty() && rng.chance(1, 5) {
            let src = names[rng.usize_below(names.len())].clone();
            if src.iter().any(|b| b.is_ascii_alphabetic()) {
                let flipped: Vec<u8> = src.iter().map(|b| if b.is_ascii_lowercase() { b.to_ascii_uppercase() } else { b.to_ascii_lowercase() }).collect();
                if !names.contains(&flipped) {
                    names.push(flipped);
                }
            }
        }
        // swarm: how often installs are interrupted in this run
        let crash_rate = *rng.pick(&[0u64, 2, 4, 8]);
        let pkgs: Vec<PkgDir> = names
            .into_iter()
            .map(|name| {
                let mut order: Vec<usize> = (0..NFILES).collect();
                rng.shuffle(&mut order);
                if many {
                    // (a scale database is about the number of directories: each holds its
                    // three mandatory files and one more - thousands of files per run are
                    // seconds on a disk-backed scratch directory)
                    order.retain(|f| ![F_COMMENT, F_CONTENTS, F_DESC].contains(f));
                    let mut head = vec![F_COMMENT, F_CONTENTS, F_DESC];
                    rng.shuffle(&mut head);
                    head.extend(order);
                    order = head;
                }
                let crash_at = if many {
                    if rng.chance(1, 12) { rng.urange(0, 2) } else { 4 }
                } else if rng.chance(crash_rate, 8) {
                    match rng.below(6) {
                        0 => 0,
                        1 => NFILES - 1,
                        _ => rng.urange(0, NFILES),
                    }
                } else {
                    NFILES
                };
                PkgDir {
                    name,
                    order,
                    crash_at,
                    // (a scale database holds small files: hundreds of directories times
                    // files of hundreds of KB would be tens of MB per run)
                    contents: (0..NFILES)
                        .map(|f| {
                            if !many {
                                gen_content(rng, f)
                            } else if f == F_SIZE_ALL || f == F_SIZE_PKG {
                                "4096\n".to_string()
                            } else {
                                format!("{} of a package among many\n", FILE_NAMES[f])
                            }
                        })
                        .collect(),
                    extras: if !many && rng.chance(1, 6) { rng.urange(1, 40) } else { 0 },
                }
            })
            .collect();
        let mut strays = Vec::new();
        if rng.chance(1, 2) {
            for _ in 0..rng.urange(1, 3) {
                let s = rng.pick(&STRAYS).to_string();
                if !strays.contains(&s) && !pkgs.iter().any(|p| p.name == s.as_bytes()) {
                    strays.push(s);
                }
            }
        }
        // ... and sometimes a stray plain file is named like a package in the other case
        if !pkgs.is_empty() && rng.chance(1, 8) {
            let src = &pkgs[rng.usize_below(pkgs.len())].name;
            if let Ok(t) = std::str::from_utf8(src) {
                let flipped: String = t.chars().map(|c| if c.is_ascii_lowercase() { c.to_ascii_uppercase() } else { c.to_ascii_lowercase() }).collect();
                if flipped != t && !strays.contains(&flipped) && !pkgs.iter().any(|p| p.name == flipped.as_bytes()) {
                    strays.push(flipped);
                }
            }
        }
        let mut links: Vec<LinkObj> = Vec::new();
        if rng.chance(1, 5) {
            for _ in 0..rng.urange(1, 3) {
                let name = rng.pick(&LINK_NAMES).to_string();
                if links.iter().any(|l| l.name == name) {
                    continue;
                }
                links.push(LinkObj {
                    name,
                    kind: *rng.pick(&[
                        LinkKind::Dangling,
                        LinkKind::ToFile,
                        LinkKind::ToCompleteDir,
                        LinkKind::ToCompleteDir,
                        LinkKind::ToIncompleteDir,
                        LinkKind::Loop,
                        LinkKind::Fifo,
                    ]),
                });
            }
        }
        let mut installer = Vec::new();
        if rng.chance(1, 3) && !pkgs.is_empty() {
            for _ in 0..rng.urange(1, 8) {
                installer.push(InstallerStep {
                    after_next: rng.urange(0, pkgs.len() + 1),
                    pkg: rng.usize_below(pkgs.len()),
                    file: if rng.chance(1, 2) {
                        *rng.pick(&[F_COMMENT, F_CONTENTS, F_DESC])
                    } else {
                        rng.usize_below(NFILES)
                    },
                    add: rng.chance(1, 2),
                });
            }
            installer.sort_by_key(|s| s.after_next);
        }
        let probes = vec![rng
            .pick(&[
                "+BADFILE", "+comment", "COMMENT", "+COMMENT ", " +COMMENT", "+", "", "+SIZE", "+SIZE_PKGS", "+DESCR", "+BUILDINFO",
                "+BUILD-INFO", "++COMMENT", "+REQUIRED_BY\n",
            ])
            .to_string()];
        // one of the 14 names with a decoration: none of these is a '+' file name
        let mut probes = probes;
        for _ in 0..2 {
            let base = *rng.pick(&FILE_NAMES);
            let d = match rng.below(14) {
                0 => format!("./{}", base),
                1 => format!("/{}", base),
                2 => format!("../{}", base),
                3 => format!("foo-1.0/{}", base),
                4 => format!("{}/", base),
                5 => format!("{} ", base),
                6 => format!(" {}", base),
                7 => format!("{}\n", base),
                8 => format!("{}\0", base),
                9 => base.to_ascii_lowercase(),
                10 => base[..base.len() - 1].to_string(),
                11 => base[1..].to_string(),
                12 => format!("{}.orig", base),
                _ => format!("+{}", base),
            };
            probes.push(d);
        }
        Sc {
            db,
            pkgs,
            strays,
            links,
            twin: rng.chance(1, 3),
            installer,
            probes,
            // (not with the scale databases: a rendezvous per call would dominate)
            migrate: if rng.chance(1, 8) { rng.next_u64() | (1 << 63) } else { 0 },
        }
    }

    fn execute(&self, sc: &Sc, ctx: &mut Ctx) -> Outcome {
        // ---- validity with fields whose lengths are large powers of two (their product is
        // 2^64, and a multiple of every smaller word): non-empty is non-empty
        if (crate::rng::hash_str(&sc.probes.join("|")) ^ sc.pkgs.len() as u64) % 40 == 7 {
            ctx.probe("validity-with-power-of-two-lengths");
            let mut md = Metadata::new();
            for (f, bits) in [(F_COMMENT, 21u32), (F_CONTENTS, 22), (F_DESC, 21)] {
                let text = "x".repeat(1usize << bits);
                if let Err(e) = md.read_metadata(entry(f), &text) {
                    fail!("metadata-parse", "Metadata::read_metadata({}) of 2^{} bytes failed: {}", FILE_NAMES[f], bits, e);
                }
            }
            ensure!(
                md.is_valid().is_ok(),
                "metadata-is-valid",
                "comment, contents and description of 2^21, 2^22 and 2^21 bytes: is_valid() is {:?}",
                md.is_valid()
            );
        }
        // ---- the file-name table is a bijection over the 14 '+' files
        // (a 14-element table: enumerated completely in every run)
        for i in 0..NFILES {
            let e = entry(i);
            ensure!(
                e.to_filename() == FILE_NAMES[i],
                "filename-table",
                "{:?}.to_filename() = {:?}, expected {:?}",
                e,
                e.to_filename(),
                FILE_NAMES[i]
            );
            ensure!(
                MetadataEntry::from_filename(FILE_NAMES[i]) == Some(entry(i)),
                "filename-table",
                "from_filename({:?}) = {:?}",
                FILE_NAMES[i],
                MetadataEntry::from_filename(FILE_NAMES[i])
            );
            for j in 0..i {
                ensure!(
                    entry(j).to_filename() != e.to_filename(),
                    "filename-table",
                    "two entries map to {:?}",
                    e.to_filename()
                );
                // ... and two different file names must not come back as entries
                // that the type itself considers equal (injectivity under its own ==)
                ensure!(
                    MetadataEntry::from_filename(FILE_NAMES[j]) != MetadataEntry::from_filename(FILE_NAMES[i]) && entry(j) != entry(i),
                    "filename-table",
                    "from_filename({:?}) and from_filename({:?}) compare equal",
                    FILE_NAMES[j],
                    FILE_NAMES[i]
                );
            }
        }
        for p in &sc.probes {
            if !FILE_NAMES.contains(&p.as_str()) {
                ensure!(
                    MetadataEntry::from_filename(p).is_none(),
                    "filename-table",
                    "from_filename({:?}) = {:?} but it is not one of the 14 '+' files",
                    p,
                    MetadataEntry::from_filename(p)
                );
            }
        }

        // ---- build the tree
        let sd = SimDisk::new();
        // (one run in four keeps its database below a directory whose name is not UTF-8:
        // the names of the packages are what counts, not the place of the database)
        let odd_root = (sc.probes.len() + sc.pkgs.len()) % 4 == 1;
        let dotdot_root = !odd_root && (sc.probes.len() + sc.pkgs.len()) % 4 == 3;
        let dbpath = if dotdot_root {
            // (another run in four reaches its database through "<link>/..", where the link
            // points into another directory: the kernel resolves that to the link target's
            // parent, a textual clean-up of the path would end up somewhere else)
            ctx.fault("database_reached_through_symlink_dotdot");
            let real = sd.root().join("elsewhere").join("sub");
            std::fs::create_dir_all(&real).unwrap_or_else(|e| panic!("SIM-HARNESS: mkdir: {}", e));
            std::os::unix::fs::symlink(&real, sd.root().join("lnk")).unwrap_or_else(|e| panic!("SIM-HARNESS: symlink: {}", e));
            // a decoy where the textual clean-up would look
            std::fs::create_dir_all(sd.root().join("db")).unwrap_or_else(|e| panic!("SIM-HARNESS: mkdir: {}", e));
            sd.root().join("lnk").join("..").join("db")
        } else if odd_root {
            ctx.fault("database_below_non_utf8_directory");
            let up = sd.root().join(OsString::from_vec(b"pkg\xff\xfedb".to_vec()));
            std::fs::create_dir_all(&up).unwrap_or_else(|e| panic!("SIM-HARNESS: mkdir: {}", e));
            up.join("db")
        } else {
            sd.path("db")
        };
        match sc.db {
            DbKind::Missing => {
                ctx.fault("missing_database_path");
                ctx.step("open", 0, 0);
                match PkgDB::open(&dbpath) {
                    Err(_) => return Ok(()),
                    Ok(_) => fail!("missing-db-opened", "PkgDB::open of a path that does not exist returned Ok"),
                }
            }
            DbKind::PlainFile => {
                ctx.fault("database_path_is_plain_file");
                std::fs::write(&dbpath, b"not a database").unwrap_or_else(|e| panic!("SIM-HARNESS: write: {}", e));
                ctx.step("open", 1, 0);
                if let Ok(db) = PkgDB::open(&dbpath) {
                    // whatever this is, it must not panic or run away
                    let mut n = 0;
                    for _ in db {
                        n += 1;
                        if n > 1000 {
                            fail!("liveness-iterator", "iterator over a plain-file database yields endlessly");
                        }
                    }
                }
                return Ok(());
            }
            DbKind::Dir => {}
        }
        std::fs::create_dir_all(&dbpath).unwrap_or_else(|e| panic!("SIM-HARNESS: mkdir: {}", e));
        // model: which files exist in which package directory
        let mut exists: Vec<[bool; NFILES]> = Vec::new();
        for p in &sc.pkgs {
            let dir = dbpath.join(OsString::from_vec(p.name.clone()));
            std::fs::create_dir_all(&dir).unwrap_or_else(|e| panic!("SIM-HARNESS: mkdir {:?}: {}", dir, e));
            let mut ex = [false; NFILES];
            for x in 0..p.extras / 2 {
                let _ = std::fs::write(dir.join(format!("extra-before-{:03}", x)), b"x");
            }
            if p.extras > 0 {
                ctx.fault("extra_files_in_package_dir");
                if p.extras >= 14 {
                    ctx.probe("package-dir-with-more-than-14-other-files");
                }
            }
            for (k, &f) in p.order.iter().enumerate() {
                if k >= p.crash_at || f >= NFILES {
                    break;
                }
                std::fs::write(dir.join(FILE_NAMES[f]), p.contents[f].as_bytes())
                    .unwrap_or_else(|e| panic!("SIM-HARNESS: write: {}", e));
                ex[f] = true;
                ctx.step("install-write", f as u64, k as u64);
            }
            for x in p.extras / 2..p.extras {
                let _ = std::fs::write(dir.join(format!("+EXTRA_AFTER_{:03}", x)), b"x");
            }
            if p.extras % 2 == 1 {
                // names that merely extend, shorten or re-case a mandatory name
                // (editor backups, a half-typed name) are not that file (wave 17, C20-54)
                for m in [FILE_NAMES[F_COMMENT], FILE_NAMES[F_CONTENTS], FILE_NAMES[F_DESC]] {
                    for near in [
                        format!("{}.orig", m),
                        format!("{}~", m),
                        m[..m.len() - 1].to_string(),
                        m.to_lowercase(),
                        format!(".{}", m),
                    ] {
                        let _ = std::fs::write(dir.join(near), b"near miss");
                    }
                }
                ctx.fault("near_miss_mandatory_names");
            }
            if p.crash_at < NFILES {
                ctx.fault("crash_during_install");
                if p.crash_at == 0 {
                    ctx.probe("crash-at-0-empty-dir");
                }
            } else {
                ctx.probe("install-completed");
            }
            if !is_utf8(&p.name) {
                ctx.fault("non_utf8_dir_name");
            } else if !has_dash(&p.name) {
                ctx.fault("dir_without_dash");
            }
            let missing = (!ex[F_COMMENT]) as u8 | ((!ex[F_CONTENTS]) as u8) << 1 | ((!ex[F_DESC]) as u8) << 2;
            ctx.probe(
                [
                    "mandatory-all-present",
                    "mandatory-missing-C",
                    "mandatory-missing-T",
                    "mandatory-missing-CT",
                    "mandatory-missing-D",
                    "mandatory-missing-CD",
                    "mandatory-missing-TD",
                    "mandatory-missing-CTD",
                ][missing as usize],
            );
            exists.push(ex);
        }
        for s in &sc.strays {
            sd.write(&format!("db/{}", s), b"stray");
            ctx.fault("stray_file_at_top");
        }
        for l in &sc.links {
            if sc.pkgs.iter().any(|p| p.name == l.name.as_bytes()) || sc.strays.contains(&l.name) {
                continue;
            }
            let at = dbpath.join(&l.name);
            let target = match l.kind {
                LinkKind::Dangling => sd.path("nowhere"),
                LinkKind::ToFile => {
                    sd.write("outside-file", b"plain");
                    sd.path("outside-file")
                }
                LinkKind::ToCompleteDir => {
                    sd.mkdir("outside-complete");
                    for f in [F_COMMENT, F_CONTENTS, F_DESC] {
                        sd.write(&format!("outside-complete/{}", FILE_NAMES[f]), b"linked\n");
                    }
                    sd.path("outside-complete")
                }
                LinkKind::ToIncompleteDir => {
                    sd.mkdir("outside-incomplete");
                    sd.write("outside-incomplete/+COMMENT", b"linked\n");
                    sd.path("outside-incomplete")
                }
                LinkKind::Loop => at.clone(),
                LinkKind::Fifo => {
                    use std::os::unix::ffi::OsStrExt;
                    let c = std::ffi::CString::new(at.as_os_str().as_bytes()).unwrap();
                    let rc = unsafe { libc::mkfifo(c.as_ptr(), 0o644) };
                    if rc != 0 {
                        panic!("SIM-HARNESS: mkfifo {:?} failed", at);
                    }
                    ctx.fault("fifo_at_top");
                    continue;
                }
            };
            std::os::unix::fs::symlink(&target, &at).unwrap_or_else(|e| panic!("SIM-HARNESS: symlink {:?}: {}", at, e));
            ctx.fault("symlink_at_top");
            ctx.step("symlink", l.kind as u64, crate::rng::hash_str(&l.name));
        }
        if sc.pkgs.is_empty() {
            ctx.probe("empty-db");
        }
        let complete = |ex: &[bool; NFILES]| ex[F_COMMENT] && ex[F_CONTENTS] && ex[F_DESC];
        let complete_at_start: Vec<bool> = exists.iter().map(complete).collect();
        // a package is "unstable" when the installer touches one of its mandatory files
        let mut unstable = vec![false; sc.pkgs.len()];
        for st in &sc.installer {
            if st.pkg < sc.pkgs.len() && [F_COMMENT, F_CONTENTS, F_DESC].contains(&st.file) {
                unstable[st.pkg] = true;
            }
        }

        // ---- iterate, with the installer running between next() calls
        ctx.step("open", 2, 0);
        let helper: Option<Helper> = if sc.migrate != 0 && sc.pkgs.len() < 200 && is_send_sync!(PkgDB) && is_send_sync!(pkgsrc::pkgdb::Package) {
            ctx.fault("caller_thread_switch");
            Some(Helper::new())
        } else {
            None
        };
        let mask = sc.migrate;
        let mut db = match on_thread!(helper, mask, 60u64, PkgDB::open(&dbpath)) {
            Ok(d) => d,
            Err(e) => fail!("open-failed", "PkgDB::open of an existing directory failed: {}", e),
        };
        let mut yielded: Vec<(String, String, String)> = Vec::new();
        let mut errors = 0usize;
        let mut nexts = 0usize;
        let mut si = 0usize;
        let mut applied_between = 0usize;
        let budget = sc.pkgs.len() + sc.strays.len() + sc.links.len() + 8;
        loop {
            while si < sc.installer.len() && sc.installer[si].after_next <= nexts {
                let st = &sc.installer[si];
                si += 1;
                if st.pkg >= sc.pkgs.len() || st.file >= NFILES {
                    continue;
                }
                let dir = dbpath.join(OsString::from_vec(sc.pkgs[st.pkg].name.clone()));
                let f = dir.join(FILE_NAMES[st.file]);
                if st.add {
                    std::fs::write(&f, sc.pkgs[st.pkg].contents[st.file].as_bytes())
                        .unwrap_or_else(|e| panic!("SIM-HARNESS: write: {}", e));
                    exists[st.pkg][st.file] = true;
                } else {
                    let _ = std::fs::remove_file(&f);
                    exists[st.pkg][st.file] = false;
                }
                // (logged after the iteration, in script order: how many of these
                // steps fall between next() calls depends on readdir order)
                applied_between += 1;
            }
            nexts += 1;
            if nexts > budget {
                fail!(
                    "liveness-iterator",
                    "iterator did not finish after {} next() calls over {} directory entries",
                    nexts,
                    sc.pkgs.len() + sc.strays.len()
                );
            }
            match on_thread!(helper, mask, nexts, metered!(ctx, 512, db.next())) {
                None => break,
                Some(Ok(p)) => yielded.push((p.pkgname().clone(), p.pkgbase().clone(), p.pkgversion().clone())),
                Some(Err(_)) => errors += 1,
            }
        }
        // a caller may poll an exhausted iterator again (by_ref, count, fuse-less
        // adaptors): it must return normally, and anything it yields counts
        for _ in 0..2 {
            ctx.step("next-after-end", 0, 0);
            match on_thread!(helper, mask, 61u64, db.next()) {
                None => {}
                Some(Ok(p)) => yielded.push((p.pkgname().clone(), p.pkgbase().clone(), p.pkgversion().clone())),
                Some(Err(_)) => errors += 1,
            }
        }
        // installer steps scheduled after the iterator finished still happen, so
        // that the final tree does not depend on how many next() calls there were
        while si < sc.installer.len() {
            let st = &sc.installer[si];
            si += 1;
            if st.pkg >= sc.pkgs.len() || st.file >= NFILES {
                continue;
            }
            let dir = dbpath.join(OsString::from_vec(sc.pkgs[st.pkg].name.clone()));
            let f = dir.join(FILE_NAMES[st.file]);
            if st.add {
                std::fs::write(&f, sc.pkgs[st.pkg].contents[st.file].as_bytes())
                    .unwrap_or_else(|e| panic!("SIM-HARNESS: write: {}", e));
                exists[st.pkg][st.file] = true;
            } else {
                let _ = std::fs::remove_file(&f);
                exists[st.pkg][st.file] = false;
            }
        }
        for st in &sc.installer {
            if st.pkg < sc.pkgs.len() && st.file < NFILES {
                ctx.step("installer", st.pkg as u64, (st.file as u64) << 1 | st.add as u64);
                ctx.fault("installer_step");
            }
        }
        if applied_between > 0 {
            ctx.probe("installer-steps-between-next-calls");
        }
        // readdir order is real and not owned by the simulator: the event log
        // holds only what cannot depend on it (yields of packages whose
        // mandatory files the installer never touches, sorted by name)
        yielded.sort();
        let mut stable_yields = 0u64;
        for y in &yielded {
            let idx = sc.pkgs.iter().position(|p| p.name == y.0.as_bytes());
            if idx.map_or(true, |i| !unstable[i]) {
                ctx.event_s("yield", &y.0);
                stable_yields += 1;
            }
        }
        let _ = errors;
        ctx.step("iterated", stable_yields, 0);
        if !sc.installer.is_empty() || sc.pkgs.iter().any(|p| p.crash_at < NFILES) || !sc.strays.is_empty() {
            ctx.nontrivial = true;
        }

        // ---- oracle
        for (i, p) in sc.pkgs.iter().enumerate() {
            if !is_utf8(&p.name) {
                continue; // relaxed: the property does not define it
            }
            let name = String::from_utf8(p.name.clone()).unwrap();
            let count = yielded.iter().filter(|y| y.0 == name).count();
            if unstable[i] {
                ctx.probe(if count > 0 {
                    "changed-during-iteration-seen"
                } else {
                    "changed-during-iteration-not-seen"
                });
                ensure!(
                    count <= 1,
                    "package-listed-twice",
                    "{:?} was yielded {} times",
                    name,
                    count
                );
                continue;
            }
            if !has_dash(&p.name) {
                // relaxed: no panic; may or may not be listed, never twice
                ensure!(count <= 1, "package-listed-twice", "{:?} was yielded {} times", name, count);
                continue;
            }
            if complete_at_start[i] {
                ensure!(
                    count >= 1,
                    "installed-package-not-listed",
                    "{:?} has +COMMENT, +CONTENTS and +DESC but was not yielded (yielded: {:?})",
                    name,
                    yielded.iter().map(|y| &y.0).collect::<Vec<_>>()
                );
                ensure!(
                    count == 1,
                    "package-listed-twice",
                    "{:?} was yielded {} times",
                    name,
                    count
                );
            } else {
                ensure!(
                    count == 0,
                    "incomplete-directory-listed",
                    "{:?} lacks a mandatory file (+COMMENT {}, +CONTENTS {}, +DESC {}) but was yielded",
                    name,
                    exists[i][F_COMMENT],
                    exists[i][F_CONTENTS],
                    exists[i][F_DESC]
                );
            }
        }
        // a symbolic link to a complete package directory: whether that is a
        // "sub-directory" is not fixed by the property - listed or not, never twice
        for l in sc.links.iter().filter(|l| l.kind == LinkKind::ToCompleteDir) {
            let count = yielded.iter().filter(|y| y.0 == l.name).count();
            ctx.probe(if count > 0 { "symlinked-package-dir-listed" } else { "symlinked-package-dir-not-listed" });
            ensure!(count <= 1, "package-listed-twice", "{:?} (a symbolic link) was yielded {} times", l.name, count);
        }
        for y in &yielded {
            let known = sc.pkgs.iter().any(|p| p.name == y.0.as_bytes())
                || sc.links.iter().any(|l| l.kind == LinkKind::ToCompleteDir && l.name == y.0);
            ensure!(
                known,
                "stray-object-listed",
                "{:?} was yielded but is not a package directory of the database",
                y.0
            );
            if has_dash(y.0.as_bytes()) {
                ctx.probe(if y.0.matches('-').count() > 1 {
                    "multi-dash-name"
                } else {
                    "single-dash-name"
                });
                if y.0.contains("nb") {
                    ctx.probe("nb-name");
                }
                let i = y.0.rfind('-').unwrap();
                let (b, v) = (&y.0[..i], &y.0[i + 1..]);
                ensure!(
                    y.1 == b && y.2 == v,
                    "base-version-split",
                    "{:?}: pkgbase() = {:?}, pkgversion() = {:?}; the parts before/after the last '-' are {:?} / {:?}",
                    y.0,
                    y.1,
                    y.2,
                    b,
                    v
                );
            }
        }

        // ---- metadata: second pass over a fresh iterator (tree is quiescent now)
        let db2 = match PkgDB::open(&dbpath) {
            Ok(d) => d,
            Err(e) => fail!("open-failed", "second open failed: {}", e),
        };
        let mut n2 = 0;
        let mut second: Vec<pkgsrc::pkgdb::Package> = Vec::new();
        let mut second_errors = 0usize;
        for item in db2 {
            n2 += 1;
            if n2 > budget {
                fail!("liveness-iterator", "second iteration does not finish");
            }
            match item {
                Ok(p) => second.push(p),
                Err(_) => second_errors += 1,
            }
        }
        // the tree is quiescent now: this second handle (opened while the first one
        // is still alive, though exhausted) must list exactly the directories that
        // are complete at this point
        for (i, p) in sc.pkgs.iter().enumerate() {
            if !is_utf8(&p.name) || !has_dash(&p.name) {
                continue;
            }
            let name = String::from_utf8(p.name.clone()).unwrap();
            let count = second.iter().filter(|q| *q.pkgname() == name).count();
            let complete_now = exists[i][F_COMMENT] && exists[i][F_CONTENTS] && exists[i][F_DESC];
            ensure!(
                count == complete_now as usize,
                if complete_now { "installed-package-not-listed" } else { "incomplete-directory-listed" },
                "second handle on the quiescent database: {:?} (complete: {}) was listed {} times",
                name,
                complete_now,
                count
            );
        }
        // the same listing through the iterator adaptors a caller may use
        // (nth, skip, step_by): on the now quiescent tree they must agree with
        // plain next() - the order of two listings of an unchanged directory is
        // the same, whatever it is
        {
            let order: Vec<String> = second.iter().map(|p| p.pkgname().clone()).collect();
            let fresh = || PkgDB::open(&dbpath).map_err(|e| Violation::new("open-failed", format!("{}", e)));
            let names_of = |it: &mut dyn Iterator<Item = std::io::Result<pkgsrc::pkgdb::Package>>| -> Vec<String> {
                it.take(budget).filter_map(|r| r.ok()).map(|p| p.pkgname().clone()).collect()
            };
            let all_items = names_of(&mut fresh()?);
            if all_items == order {
                ctx.probe("adaptor-listing-compared");
                for k in [0usize, 1, order.len() / 2, order.len().saturating_sub(1), order.len()] {
                    // nth counts items (Ok and Err); compare on databases without Err items
                    if second_errors == 0 {
                        let got = fresh()?.nth(k).and_then(|r| r.ok()).map(|p| p.pkgname().clone());
                        ensure!(
                            got.as_ref() == order.get(k),
                            "adaptor-disagrees-with-next",
                            "nth({}) gave {:?}, plain iteration lists {:?} at that position",
                            k,
                            got,
                            order.get(k)
                        );
                        let rest = names_of(&mut fresh()?.skip(k));
                        ensure!(
                            rest == order[k.min(order.len())..],
                            "adaptor-disagrees-with-next",
                            "skip({}) lists {:?}, plain iteration lists {:?} from that position",
                            k,
                            rest,
                            &order[k.min(order.len())..]
                        );
                    }
                }
                if second_errors == 0 {
                    let every_other = names_of(&mut fresh()?.step_by(2));
                    let want: Vec<String> = order.iter().step_by(2).cloned().collect();
                    ensure!(
                        every_other == want,
                        "adaptor-disagrees-with-next",
                        "step_by(2) lists {:?}, every other package of the plain listing is {:?}",
                        every_other,
                        want
                    );
                }
            }
        }
        second.sort_by(|a, b| a.pkgname().cmp(b.pkgname()));
        if sc.twin {
            ctx.fault("interleaved_objects");
            // two handles on the same path, advanced in turn: each must list what a
            // single handle lists
            let mut a = PkgDB::open(&dbpath).map_err(|e| Violation::new("open-failed", format!("{}", e)))?;
            let mut b = PkgDB::open(&dbpath).map_err(|e| Violation::new("open-failed", format!("{}", e)))?;
            let (mut la, mut lb): (Vec<String>, Vec<String>) = (Vec::new(), Vec::new());
            let (mut da, mut db_done) = (false, false);
            let mut turns = 0;
            while !(da && db_done) {
                turns += 1;
                if turns > 2 * budget + 4 {
                    fail!("liveness-iterator", "two interleaved handles do not finish");
                }
                if !da {
                    match a.next() {
                        None => da = true,
                        Some(Ok(p)) => la.push(p.pkgname().clone()),
                        Some(Err(_)) => {}
                    }
                }
                if !db_done {
                    match b.next() {
                        None => db_done = true,
                        Some(Ok(p)) => lb.push(p.pkgname().clone()),
                        Some(Err(_)) => {}
                    }
                }
            }
            la.sort();
            lb.sort();
            let want: Vec<String> = second.iter().map(|p| p.pkgname().clone()).collect();
            ensure!(
                la == want && lb == want,
                "twin-handles-interfere",
                "two handles on the same database advanced in turn listed {:?} and {:?}; a single handle lists {:?}",
                la,
                lb,
                want
            );
            ctx.probe("twin-handles-compared");
            // another database with the same directory names and other content is
            // opened and listed while the first one's packages are still held
            sd.mkdir("db-other");
            for pkg in &second {
                if !pkg.pkgname().is_empty() && !pkg.pkgname().contains('/') {
                    sd.mkdir(&format!("db-other/{}", pkg.pkgname()));
                    for f in [F_COMMENT, F_CONTENTS, F_DESC] {
                        sd.write(&format!("db-other/{}/{}", pkg.pkgname(), FILE_NAMES[f]), format!("OTHER {}\n", FILE_NAMES[f]).as_bytes());
                    }
                }
            }
            // one file there is a link to a file whose reported length (0) disagrees with what
            // reading it returns, as files of procfs and of some network file systems do:
            // the content is what read() delivers, not what stat() announces (wave 17, C20-53)
            let mut sizeless: Option<(String, String)> = None;
            if let Some(first) = second.iter().find(|p| !p.pkgname().is_empty() && !p.pkgname().contains('/')) {
                let src = std::path::Path::new("/proc/version");
                let announced = std::fs::metadata(src).map(|m| m.len()).ok();
                let mut text = String::new();
                let read_ok = std::fs::File::open(src).and_then(|mut f| std::io::Read::read_to_string(&mut f, &mut text)).is_ok();
                if announced == Some(0) && read_ok && !text.is_empty() {
                    let at = sd.path(&format!("db-other/{}/{}", first.pkgname(), FILE_NAMES[6]));
                    if std::os::unix::fs::symlink(src, &at).is_ok() {
                        ctx.fault("file_announcing_length_0_with_content");
                        sizeless = Some((first.pkgname().clone(), text));
                    }
                }
            }
            let others: Vec<pkgsrc::pkgdb::Package> = PkgDB::open(&sd.path("db-other"))
                .map_err(|e| Violation::new("open-failed", format!("{}", e)))?
                .take(budget)
                .filter_map(|r| r.ok())
                .collect();
            for o in &others {
                let got = o.read_metadata(MetadataEntry::Comment);
                ensure!(
                    got.as_deref().ok() == Some("OTHER +COMMENT\n"),
                    "metadata-content",
                    "{} of the second database: read_metadata(+COMMENT) returned {:?}",
                    o.pkgname(),
                    got
                );
                if let Some((name, text)) = &sizeless {
                    if o.pkgname() == name {
                        let got = o.read_metadata(MetadataEntry::Display);
                        ensure!(
                            got.as_deref().ok() == Some(text.as_str()),
                            "metadata-content",
                            "{} of the second database: +DISPLAY is a link to a file that announces length 0 and delivers {:?}; read_metadata returned {:?}",
                            o.pkgname(),
                            text,
                            got
                        );
                    }
                }
            }
        }
        // every listed package's metadata, read file by file ACROSS the packages,
        // so that their Metadata values are filled side by side
        let listed: Vec<(usize, pkgsrc::pkgdb::Package)> = second
            .into_iter()
            .filter_map(|pkg| sc.pkgs.iter().position(|p| p.name == pkg.pkgname().as_bytes()).map(|pi| (pi, pkg)))
            .collect();
        let mut mds: Vec<Metadata> = listed.iter().map(|(pi, _)| if pi % 2 == 0 { Metadata::new() } else { Metadata::default() }).collect();
        for f in 0..NFILES {
            for (k, (pi, pkg)) in listed.iter().enumerate() {
                let pi = *pi;
                let md = &mut mds[k];
                let got = on_thread!(
                    helper,
                    mask,
                    k * NFILES + f,
                    metered!(ctx, if exists[pi][f] { sc.pkgs[pi].contents[f].len() } else { 0 } + 256, pkg.read_metadata(entry(f)))
                );
                ctx.step("read_metadata", pi as u64, f as u64);
                match (&got, exists[pi][f]) {
                    (Ok(s), true) => ensure!(
                        *s == sc.pkgs[pi].contents[f],
                        "metadata-content",
                        "{}: read_metadata({}) returned {:?}, the stored file holds {:?}",
                        pkg.pkgname(),
                        FILE_NAMES[f],
                        s,
                        sc.pkgs[pi].contents[f]
                    ),
                    (Ok(s), false) => fail!(
                        "metadata-content",
                        "{}: {} does not exist but read_metadata returned {:?}",
                        pkg.pkgname(),
                        FILE_NAMES[f],
                        s
                    ),
                    (Err(e), true) => fail!(
                        "metadata-content",
                        "{}: {} exists but read_metadata failed: {}",
                        pkg.pkgname(),
                        FILE_NAMES[f],
                        e
                    ),
                    (Err(_), false) => {}
                }
                if let Ok(s) = &got {
                    if let Err(e) = md.read_metadata(entry(f), s) {
                        fail!("metadata-parse", "{}: Metadata::read_metadata({}) failed: {}", pkg.pkgname(), FILE_NAMES[f], e);
                    }
                }
            }
        }
        // the installer comes back while the handles are still held: files that were
        // read (or found missing) a moment ago are created, rewritten or removed, and
        // the same handle is asked again - it must answer from the file as it is now
        for (pi, pkg) in listed.iter() {
            let pi = *pi;
            let dir = dbpath.join(OsString::from_vec(sc.pkgs[pi].name.clone()));
            for f in 0..NFILES {
                if (pi + f) % 3 != 0 {
                    continue;
                }
                let path = dir.join(FILE_NAMES[f]);
                // (a rewrite in place that keeps the length and puts the old modification time
                // back - cp -p, an unpacked archive, the same clock tick - is still a rewrite)
                let same_len_same_mtime = exists[pi][f] && (pi + f) % 4 == 2 && sc.pkgs[pi].contents[f].is_ascii() && !sc.pkgs[pi].contents[f].is_empty();
                let old_mtime = std::fs::metadata(&path).and_then(|m| m.modified()).ok();
                let late: Option<String> = if !exists[pi][f] {
                    Some(format!("late {} {}\n", pi, FILE_NAMES[f]))
                } else if same_len_same_mtime {
                    let mut b = sc.pkgs[pi].contents[f].clone().into_bytes();
                    let k = b.len() / 2;
                    b[k] = if b[k] == b'Z' { b'Y' } else { b'Z' };
                    Some(String::from_utf8(b).unwrap())
                } else if (pi + f) % 2 == 0 {
                    Some(format!("rewritten {}\n{}", f, sc.pkgs[pi].contents[f].chars().rev().take(40).collect::<String>()))
                } else {
                    None
                };
                match &late {
                    Some(t) if same_len_same_mtime => {
                        use std::io::Write as _;
                        let mut fh = std::fs::OpenOptions::new().write(true).open(&path).unwrap_or_else(|e| panic!("SIM-HARNESS: open: {}", e));
                        fh.write_all(t.as_bytes()).unwrap_or_else(|e| panic!("SIM-HARNESS: write: {}", e));
                        if let Some(m) = old_mtime {
                            let _ = fh.set_modified(m);
                        }
                        ctx.fault("rewritten_in_place_same_length_same_mtime");
                    }
                    Some(t) => std::fs::write(&path, t.as_bytes()).unwrap_or_else(|e| panic!("SIM-HARNESS: write: {}", e)),
                    None => {
                        let _ = std::fs::remove_file(&path);
                    }
                }
                ctx.fault("file_changed_after_read");
                let got = pkg.read_metadata(entry(f));
                ctx.step("read_metadata_again", pi as u64, f as u64);
                match (&got, &late) {
                    (Ok(s), Some(t)) => ensure!(
                        s == t,
                        "metadata-content",
                        "{}: {} was {} after its first read; the same handle then returned {:?}, the file holds {:?}",
                        pkg.pkgname(),
                        FILE_NAMES[f],
                        if exists[pi][f] { "rewritten" } else { "created" },
                        s,
                        t
                    ),
                    (Err(e), Some(_)) => fail!(
                        "metadata-content",
                        "{}: {} was {} after its first read; the same handle then failed: {}",
                        pkg.pkgname(),
                        FILE_NAMES[f],
                        if exists[pi][f] { "rewritten" } else { "created" },
                        e
                    ),
                    (Ok(s), None) => fail!(
                        "metadata-content",
                        "{}: {} was removed after its first read; the same handle still returned {:?}",
                        pkg.pkgname(),
                        FILE_NAMES[f],
                        s
                    ),
                    (Err(_), None) => {}
                }
            }
        }
        // validity, decided after all of them were filled: valid ones first
        let mut order: Vec<usize> = (0..listed.len()).collect();
        let wanted = |pi: usize| {
            let ne = |f: usize| exists[pi][f] && !sc.pkgs[pi].contents[f].trim().is_empty();
            ne(F_COMMENT) && ne(F_CONTENTS) && ne(F_DESC)
        };
        order.sort_by_key(|&k| !wanted(listed[k].0));
        for k in order {
            let (pi, pkg) = &listed[k];
            let pi = *pi;
            let md = &mds[k];
            let ne = |f: usize| exists[pi][f] && !sc.pkgs[pi].contents[f].trim().is_empty();
            let want_valid = wanted(pi);
            ctx.probe(if want_valid { "metadata-valid" } else { "metadata-invalid" });
            ensure!(
                md.is_valid().is_ok() == want_valid,
                "metadata-is-valid",
                "{}: is_valid() is {:?} but comment/contents/description non-empty is {}/{}/{}",
                pkg.pkgname(),
                md.is_valid(),
                ne(F_COMMENT),
                ne(F_CONTENTS),
                ne(F_DESC)
            );
        }
        Ok(())
    }

    fn shrink(&self, sc: &Sc, emit: &mut dyn FnMut(Sc) -> bool) {
        macro_rules! push {
            ($e:expr) => {
                if emit($e) {
                    return;
                }
            };
        }
        for i in 0..sc.pkgs.len() {
            let mut s = sc.clone();
            s.pkgs.remove(i);
            s.installer.retain(|st| st.pkg != i);
            for st in s.installer.iter_mut() {
                if st.pkg > i {
                    st.pkg -= 1;
                }
            }
            push!(s);
        }
        for st in shrink_vec(&sc.installer) {
            push!(Sc { installer: st, ..sc.clone() });
        }
        for st in shrink_vec(&sc.strays) {
            push!(Sc { strays: st, ..sc.clone() });
        }
        for l in shrink_vec(&sc.links) {
            push!(Sc { links: l, ..sc.clone() });
        }
        if !sc.probes.is_empty() {
            push!(Sc { probes: vec![], ..sc.clone() });
        }
        if sc.migrate != 0 {
            push!(Sc { migrate: 0, ..sc.clone() });
        }
        for (i, p) in sc.pkgs.iter().enumerate() {
            if p.crash_at != NFILES {
                let mut s = sc.clone();
                s.pkgs[i].crash_at = NFILES;
                push!(s);
            }
            for e in shrink_usize(p.extras) {
                let mut s = sc.clone();
                s.pkgs[i].extras = e;
                push!(s);
            }
            let sorted: Vec<usize> = (0..NFILES).collect();
            if p.order != sorted {
                let mut s = sc.clone();
                s.pkgs[i].order = sorted;
                push!(s);
            }
            for f in 0..NFILES {
                let simple = if f == F_SIZE_ALL || f == F_SIZE_PKG { "1" } else { "x" };
                if p.contents[f] != simple && p.contents[f].len() > 64 {
                // halve large contents first
                let half: String = p.contents[f].chars().take(p.contents[f].chars().count() / 2).collect();
                let mut s = sc.clone();
                s.pkgs[i].contents[f] = half;
                push!(s);
                let tail: String = p.contents[f].chars().skip(p.contents[f].chars().count() / 2).collect();
                let mut s = sc.clone();
                s.pkgs[i].contents[f] = tail;
                push!(s);
            }
            if p.contents[f] != simple {
                    let mut s = sc.clone();
                    s.pkgs[i].contents[f] = simple.to_string();
                    push!(s);
                }
            }
            if p.name != b"p-1" && !sc.pkgs.iter().any(|q| q.name == b"p-1") {
                let mut s = sc.clone();
                s.pkgs[i].name = b"p-1".to_vec();
                push!(s);
            }
        }
    }

    fn classify(&self, sc: &Sc, v: &Violation) -> String {
        if v.clause == "panic" && sc.pkgs.iter().any(|p| is_utf8(&p.name) && !has_dash(&p.name)) {
            "dir-without-dash".to_string()
        } else {
            String::new()
        }
    }

    fn work_factor(&self) -> Option<u64> {
        Some(128)
    }
    fn rule(&self) -> String {
        "Each run draws a database configuration: 0..8 package directories (names with one or several '-', nb \
         revisions, empty base or version, non-ASCII; rarely without '-' or non-UTF-8), each installed by writing its \
         14 '+' files in a per-run random order and interrupted after j files (j in 0..14; swarm-chosen crash rate), \
         stray top-level files, in a fifth of the runs symbolic links at top level (dangling, to a file, to a complete \
         or incomplete directory outside the database, to itself), rarely a missing or plain-file database path; in a third of the runs an installer adds \
         or removes '+' files inside existing directories between next() calls. Non-trivial = at least one \
         interrupted install, stray file or installer step; distinct = distinct schedule signatures (hash of the \
         install write sequences, installer steps and iteration outcome). The 14-entry file-name table is enumerated \
         completely in every run."
            .to_string()
    }
    fn components_real(&self) -> Vec<&'static str> {
        vec![
            "pkgsrc::pkgdb::{PkgDB::open, Iterator for PkgDB, Package::{pkgname,pkgbase,pkgversion,read_metadata}}",
            "pkgsrc::{Metadata::{read_metadata,is_valid}, MetadataEntry::{to_filename,from_filename}}",
            "the kernel file system (tmpfs scratch directory): read_dir, exists, read_to_string",
        ]
    }
    fn components_stub(&self) -> Vec<&'static str> {
        vec!["the installer (harness actor writing and removing '+' files according to the scenario)"]
    }
    fn assumptions(&self) -> Vec<&'static str> {
        vec![
            "readdir order is not owned by the simulator; every comparison is a multiset comparison and the event log is sorted by name",
            "directories whose mandatory files are touched by the interleaved installer may be listed or not (never twice)",
            "names without '-' and non-UTF-8 names: only 'no panic, other packages listed exactly once' is required",
            "a top-level symbolic link to a complete package directory may be listed or not (the property does not say whether it is a sub-directory); dangling links, links to files, to incomplete directories and to themselves must not be listed",
            "'+SIZE_ALL' / '+SIZE_PKG' hold integers here (non-numeric sizes are C17's subject); file contents are UTF-8",
            "I/O errors from read_dir cannot be injected (no FS seam; checks run as root)",
        ]
    }
    fn expected_probes(&self) -> Vec<&'static str> {
        vec![
            "mandatory-all-present",
            "mandatory-missing-C",
            "mandatory-missing-T",
            "mandatory-missing-CT",
            "mandatory-missing-D",
            "mandatory-missing-CD",
            "mandatory-missing-TD",
            "mandatory-missing-CTD",
            "crash-at-0-empty-dir",
            "install-completed",
            "multi-dash-name",
            "nb-name",
            "empty-db",
            "changed-during-iteration-seen",
            "changed-during-iteration-not-seen",
            "metadata-valid",
            "metadata-invalid",
            "package-dir-with-more-than-14-other-files",
            "adaptor-listing-compared",
        ]
    }
}
