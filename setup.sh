#!/bin/bash
# Offline build of the simulator into /verif/target.
ROOT="$(cd "$(dirname "${BASH_SOURCE[0]}")" && pwd)"
export CARGO_NET_OFFLINE=true
export CARGO_TARGET_DIR="$ROOT/target"
exec cargo build --release --offline --manifest-path "$ROOT/sim/Cargo.toml"
